---------------------------- MODULE RoaringSet ----------------------------
(* Abstract semantics of the 32-bit (and, re-instantiated, 64-bit) Roaring bitmap API.             *)
(*                                                                                                  *)
(* The universe [0, 2^bits) is partitioned into ATOMS grouped into CELLS (consecutive intervals).  *)
(* A bitmap denotes a set of atoms.  Every public call is a record `k` (field op + arguments);     *)
(* Effect(U, c, k) is the content of every slot after the call, Result(U, c, k) the value the call *)
(* must return.  The same two operators drive                                                      *)
(*   - the exhaustive / simulated models (MCSet*.tla), whose transitions are replayed into the code *)
(*   - the trace specification (TraceSet.tla) that validates recorded executions of the code.       *)
(*                                                                                                  *)
(* U (the universe description) is a record:                                                        *)
(*   nat, ncell : number of atoms / cells            cell[a] : cell of atom a (cells are ordered)   *)
(*   w[a]       : cardinality of atom a (Nums)       single  : sequence of atoms of cardinality 1   *)
(*   lo[a],hi[a]: rank of the least / greatest element of atom a among all atoms                    *)
(*   sh[j][a]   : atom that atom a is mapped to by offered offset j (0 = shifted out of the         *)
(*                universe, -1 = not expressible; such calls are never issued)                      *)
EXTENDS Integers, Sequences, FiniteSets, FiniteSetsExt, Nums, RoaringSerial

Slots == 1..6

ToSet(s) == {s[i] : i \in DOMAIN s}
\* the harness omits empty lists and zero integers from call records
Xs(k) == IF "xs" \in DOMAIN k THEN k.xs ELSE <<>>
As(k) == IF "as" \in DOMAIN k THEN k.as ELSE <<>>
Side(k) == IF "side" \in DOMAIN k THEN k.side ELSE 0

Atoms(U) == 1..U.nat
AtomsIn(U, c0, c1) == {a \in Atoms(U) : U.cell[a] >= c0 /\ U.cell[a] < c1}   \* cells [c0, c1)
W(U, S) == NSum(U.w, S)

MinAtom(U, S) == CHOOSE a \in S : \A b \in S : U.lo[a] <= U.lo[b]
MaxAtom(U, S) == CHOOSE a \in S : \A b \in S : U.hi[a] >= U.hi[b]
FirstAtom(U, c) == MinAtom(U, AtomsIn(U, c, c + 1))     \* the atom holding the first integer of cell c
LastAtom(U, c) == MaxAtom(U, AtomsIn(U, c, c + 1))      \* the atom holding the last integer of cell c

\* Landmarks: an expected integer result is "the least / greatest element of atom a", or none.
LmNone == [a |-> 0, pos |-> "n"]
LmFirst(U, S) == IF S = {} THEN LmNone ELSE [a |-> MinAtom(U, S), pos |-> "f"]
LmLast(U, S) == IF S = {} THEN LmNone ELSE [a |-> MaxAtom(U, S), pos |-> "l"]
\* r is the logged result [a, f, l]
LmMatches(exp, r) ==
  IF exp.a = 0 THEN r.a = 0
  ELSE r.a = exp.a /\ (exp.pos \in {"f", "b"} => r.f) /\ (exp.pos \in {"l", "b"} => r.l)

---------------------------------------------------------------------------
(* Set-valued folds *)
UnionOf(c, xs) == UNION {c[xs[i]] : i \in DOMAIN xs}
InterOf(U, c, xs) == IF xs = <<>> THEN {} ELSE {a \in Atoms(U) : \A i \in DOMAIN xs : a \in c[xs[i]]}
XorOf(U, c, xs) == {a \in Atoms(U) : Cardinality({i \in DOMAIN xs : a \in c[xs[i]]}) % 2 = 1}
SDiff(A, B) == (A \ B) \cup (B \ A)
Shifted(U, S, j) == {U.sh[j][a] : a \in S} \ {0}

\* The slot a call writes (0 = none), i.e. the only slot whose content may change.
Target(k) ==
  CASE k.op \in {"New", "Build", "BitmapOf", "Clone", "AndS", "OrS", "XorS", "AndNotS", "FlipS", "AddOffset",
                 "DenseRT", "BitSetRT", "FastOr", "HeapOr", "ParOr", "ParHeapOr", "FastAnd", "ParAnd", "HeapXor",
                 "Load", "FrozenRT", "LoadLegal", "Load64", "Adopt"} -> k.dst
    [] k.op \in {"Add", "AddInt", "CheckedAdd", "Remove", "CheckedRemove", "AddMany", "AddRange", "RemoveRange",
                 "Flip", "Clear", "RunOptimize", "SetCOW", "Detach", "And", "Or", "Xor", "AndNot", "AndAny"} -> k.x
    [] OTHER -> 0

\* The slots a call reads.
Reads(k) ==
  (IF "x" \in DOMAIN k THEN {k.x} ELSE {}) \cup (IF "y" \in DOMAIN k THEN {k.y} ELSE {}) \cup ToSet(Xs(k))

\* New content of the target slot.
NewContent(U, c, k) ==
  CASE k.op = "New" -> {}
    [] k.op \in {"Build", "BitmapOf", "LoadLegal", "Adopt"} -> ToSet(As(k))
    [] k.op \in {"Clone", "DenseRT", "BitSetRT", "Load", "FrozenRT", "Load64"} -> c[k.x]
    [] k.op \in {"Add", "AddInt", "CheckedAdd"} -> c[k.x] \cup {k.a}
    [] k.op \in {"Remove", "CheckedRemove"} -> c[k.x] \ {k.a}
    [] k.op = "AddMany" -> c[k.x] \cup ToSet(As(k))
    [] k.op = "AddRange" -> c[k.x] \cup AtomsIn(U, k.c0, k.c1)
    [] k.op = "RemoveRange" -> c[k.x] \ AtomsIn(U, k.c0, k.c1)
    [] k.op \in {"Flip", "FlipS"} -> SDiff(c[k.x], AtomsIn(U, k.c0, k.c1))
    [] k.op = "Clear" -> {}
    [] k.op \in {"RunOptimize", "SetCOW", "Detach"} -> c[k.x]
    [] k.op \in {"And", "AndS"} -> c[k.x] \cap c[k.y]
    [] k.op \in {"Or", "OrS"} -> c[k.x] \cup c[k.y]
    [] k.op \in {"Xor", "XorS"} -> SDiff(c[k.x], c[k.y])
    [] k.op \in {"AndNot", "AndNotS"} -> c[k.x] \ c[k.y]
    [] k.op \in {"FastOr", "HeapOr", "ParOr", "ParHeapOr"} -> UnionOf(c, Xs(k))
    [] k.op \in {"FastAnd", "ParAnd"} -> InterOf(U, c, Xs(k))
    [] k.op = "HeapXor" -> XorOf(U, c, Xs(k))
    [] k.op = "AndAny" -> c[k.x] \cap UnionOf(c, Xs(k))
    [] k.op = "AddOffset" -> Shifted(U, c[k.x], k.j)

Effect(U, c, k) ==
  IF k.op = "ConcLoad"      \* concurrent decodes of slots xs[1..n] into slots 4..3+n
  THEN [s \in Slots |-> IF s \in 4..(3 + Len(Xs(k))) THEN c[Xs(k)[s - 3]] ELSE c[s]]
  ELSE IF Target(k) = 0 THEN c ELSE [c EXCEPT ![Target(k)] = NewContent(U, c, k)]

---------------------------------------------------------------------------
(* Results.  HasResult(k) tells whether the call returns something the specification constrains;   *)
(* ResultOK(U, c, k, r) is the constraint on the logged result r.                                   *)

Complement(U, S) == Atoms(U) \ S

\* least element >= t / greatest element <= t of the set of atoms S, for a target t that is the first
\* (side = 0) or last (side = 1) integer of cell cl.
NextIn(U, S, cl, side) ==
  IF side = 0 THEN LmFirst(U, {a \in S : U.cell[a] >= cl})
  ELSE IF LastAtom(U, cl) \in S THEN [a |-> LastAtom(U, cl), pos |-> "l"]
  ELSE LmFirst(U, {a \in S : U.cell[a] > cl})
PrevIn(U, S, cl, side) ==
  IF side = 1 THEN LmLast(U, {a \in S : U.cell[a] <= cl})
  ELSE IF FirstAtom(U, cl) \in S THEN [a |-> FirstAtom(U, cl), pos |-> "f"]
  ELSE LmLast(U, {a \in S : U.cell[a] < cl})

RankAt(U, S, cl, side) ==
  IF side = 1 THEN W(U, {a \in S : U.cell[a] <= cl})
  ELSE NAdd(W(U, {a \in S : U.cell[a] < cl}), IF FirstAtom(U, cl) \in S THEN NOne ELSE NZero)

\* Select(i): decided when i falls on a cell boundary of the cumulative weights, or beyond the end.
CumBefore(U, S, cl) == W(U, {a \in S : U.cell[a] < cl})
SelectDecided(U, S, i) ==
  \/ NLe(W(U, S), i)
  \/ \E cl \in 1..U.ncell : (\E a \in S : U.cell[a] = cl) /\
        (NEq(i, CumBefore(U, S, cl)) \/ NEq(NAdd(i, NOne), CumBefore(U, S, cl + 1)))
SelectExpected(U, S, i) ==
  IF NLe(W(U, S), i) THEN LmNone
  ELSE LET cl == CHOOSE cc \in 1..U.ncell : (\E a \in S : U.cell[a] = cc) /\
                    (NEq(i, CumBefore(U, S, cc)) \/ NEq(NAdd(i, NOne), CumBefore(U, S, cc + 1)))
           inCell == {a \in S : U.cell[a] = cl}
       IN IF NEq(i, CumBefore(U, S, cl)) /\ NEq(NAdd(i, NOne), CumBefore(U, S, cl + 1))
          THEN [a |-> MinAtom(U, inCell), pos |-> "b"]     \* a one-element cell content
          ELSE IF NEq(i, CumBefore(U, S, cl)) THEN LmFirst(U, inCell) ELSE LmLast(U, inCell)

\* Calls of the serialization family return a record; the set of violated clauses is reported by name.
SerialClauses(k, r) ==
  CASE k.op = "Ser" -> AccountingViolations(r) \cup (IF r.err THEN {} ELSE PortableViolations(r.f) \cup WriterViolations(r.f, r.kinds))
    [] k.op = "Load" -> LoadViolations(r)
    [] k.op = "WriteFail" -> (IF r.err THEN {} ELSE {"failed-writer-not-reported"}) \cup (IF r.nle THEN {} ELSE {"returned-more-than-written"})
    [] k.op = "Freeze" -> FrozenViolations(r)
    [] k.op = "FrozenRT" -> IF r.err THEN {"frozen-view-error"} ELSE {}
    [] k.op = "LoadLegal" -> IF r.err THEN {"legal-stream-rejected"} ELSE {}
    \* untrusted bytes (C10): a decoder returns an error or returns normally; a proper prefix of a valid portable
    \* stream is rejected; MustReadFrom = ReadFrom + panic exactly on a validation failure
    [] k.op = "Decode" -> (IF r.outcome \in {"err", "ok"} THEN {} ELSE {"decoder-" \o r.outcome})
                          \cup (IF r.prefix /\ r.outcome = "ok" THEN {"prefix-accepted"} ELSE {})
    [] k.op = "MustRead" -> (IF r.panicked /\ (~r.readOK \/ r.validNil) THEN {"panic-without-validation-failure"} ELSE {})
                            \cup (IF ~r.panicked /\ r.readOK /\ ~r.validNil THEN {"invalid-bitmap-not-reported"} ELSE {})
                            \cup (IF ~r.panicked /\ ~(r.sameN /\ r.sameErr) THEN {"count-or-error-differs-from-ReadFrom"} ELSE {})
    [] k.op = "ConcLoad" -> IF \E i \in DOMAIN r.errs : r.errs[i] THEN {"concurrent-decode-failed"} ELSE {}
    [] k.op = "Ser64" -> {cl \in {"write-error", "size-mismatch", "returned-count", "writers-differ", "library-bitmap-invalid"} :
                            CASE cl = "write-error" -> r.err
                              [] cl = "size-mismatch" -> ~r.err /\ ~NEq(r.len, r.gsz)
                              [] cl = "returned-count" -> ~r.err /\ ~NEq(r.len, r.retn)
                              [] cl = "writers-differ" -> ~r.err /\ ~r.same
                              [] cl = "library-bitmap-invalid" -> ~r.valid}
    [] k.op = "Load64" -> LoadViolations(r) \cup (IF r.valid THEN {} ELSE {"loaded-bitmap-invalid"})
    [] OTHER -> {}


HasResult(k) ==
  k.op \in {"CheckedAdd", "CheckedRemove", "AndCard", "OrCard", "Intersects", "Equals", "Contains", "IsEmpty",
            "Card", "Min", "Max", "Rank", "Select", "Stats", "String", "CardInRange", "IntersectsInterval", "NextValue",
            "PreviousValue", "NextAbsentValue", "PreviousAbsentValue", "ToArray", "ChecksumEq", "ChecksumRT",
            "Ser", "Load", "WriteFail", "Freeze", "FrozenRT", "LoadLegal", "Ser64", "Load64", "Decode", "MustRead", "ConcLoad"}

ResultOK(U, c, k, r) ==
  CASE k.op = "CheckedAdd" -> r = (k.a \notin c[k.x])
    [] k.op = "CheckedRemove" -> r = (k.a \in c[k.x])
    [] k.op = "AndCard" -> r = W(U, c[k.x] \cap c[k.y])
    [] k.op = "OrCard" -> r = W(U, c[k.x] \cup c[k.y])
    [] k.op = "Intersects" -> r = (c[k.x] \cap c[k.y] # {})
    [] k.op = "Equals" -> r = (c[k.x] = c[k.y])
    [] k.op = "Contains" -> r = (k.a \in c[k.x])
    [] k.op = "IsEmpty" -> r = (c[k.x] = {})
    [] k.op = "Card" -> r = W(U, c[k.x])
    [] k.op = "Min" -> LmMatches(LmFirst(U, c[k.x]), r)
    [] k.op = "Max" -> LmMatches(LmLast(U, c[k.x]), r)
    [] k.op = "Rank" -> r = RankAt(U, c[k.x], k.c0, Side(k))
    [] k.op = "Select" -> SelectDecided(U, c[k.x], k.num) => LmMatches(SelectExpected(U, c[k.x], k.num), r)
    [] k.op = "CardInRange" -> r = W(U, c[k.x] \cap AtomsIn(U, k.c0, k.c1))
    [] k.op = "IntersectsInterval" -> r = (c[k.x] \cap AtomsIn(U, k.c0, k.c1) # {})
    [] k.op = "NextValue" -> LmMatches(NextIn(U, c[k.x], k.c0, Side(k)), r)
    [] k.op = "PreviousValue" -> LmMatches(PrevIn(U, c[k.x], k.c0, Side(k)), r)
    [] k.op = "NextAbsentValue" -> LmMatches(NextIn(U, Complement(U, c[k.x]), k.c0, Side(k)), r)
    [] k.op = "PreviousAbsentValue" -> LmMatches(PrevIn(U, Complement(U, c[k.x]), k.c0, Side(k)), r)
    [] k.op = "ToArray" -> r = W(U, c[k.x])                      \* length; the listing itself is `arr`
    [] k.op = "String" -> r = W(U, c[k.x])                       \* number of printed values; the listing itself is `arr`
    \* Stats(): per-kind container counts add up to the container count and agree with the raw view, per-kind value
    \* counts add up to the cardinality, HasRunCompression iff some run chunk
    [] k.op = "Stats" -> /\ r.card = W(U, c[k.x]) /\ r.values = W(U, c[k.x])
                         /\ r.containers = r.kinds[1] + r.kinds[2] + r.kinds[3]
                         /\ r.kinds = r.viewkinds
                         /\ r.hasrun = (r.kinds[3] > 0)
    [] k.op = "ChecksumEq" -> TRUE   \* Checksum depends on the representation: C03 promises stability under Clone and round trip only (ChecksumRT)
    [] k.op = "ChecksumRT" -> r = TRUE
    [] OTHER -> SerialClauses(k, r) = {}

\* Calls that also return a listing of a set (decoded independently by the harness) name the set here.
HasListing(k) == k.op \in {"ToArray", "DenseRT", "BitSetRT", "Ser", "Freeze", "String"}
ListingOf(U, c, k) == c[k.x]

---------------------------------------------------------------------------
(* Algebraic sanity of the specification itself, over all subsets of a small universe: an error in  *)
(* these operators must not be mistaken for an oracle.  Checked by TLC as ASSUMEs in MCSetLaws.     *)
LawsHold(U) ==
  LET P == SUBSET Atoms(U)
      c(A, B) == [s \in Slots |-> IF s = 1 THEN A ELSE IF s = 2 THEN B ELSE {}]
      E(A, B, k) == Effect(U, c(A, B), k)
  IN \A A, B \in P :
       /\ E(A, B, [op |-> "Or", x |-> 1, y |-> 2])[1] = E(B, A, [op |-> "Or", x |-> 1, y |-> 2])[1]
       /\ E(A, B, [op |-> "And", x |-> 1, y |-> 2])[1] = E(B, A, [op |-> "And", x |-> 1, y |-> 2])[1]
       /\ E(A, B, [op |-> "Xor", x |-> 1, y |-> 2])[1] =
            E(A, B, [op |-> "Or", x |-> 1, y |-> 2])[1] \ E(A, B, [op |-> "And", x |-> 1, y |-> 2])[1]
       /\ E(A, B, [op |-> "AndNot", x |-> 1, y |-> 2])[1] \cup E(A, B, [op |-> "And", x |-> 1, y |-> 2])[1] = A
       /\ NAdd(W(U, A), W(U, B)) = NAdd(W(U, A \cup B), W(U, A \cap B))
       /\ E(A, B, [op |-> "FastOr", dst |-> 3, xs |-> <<1, 2>>])[3] = A \cup B
       /\ E(A, B, [op |-> "FastAnd", dst |-> 3, xs |-> <<1, 2, 1>>])[3] = A \cap B
       /\ E(A, B, [op |-> "HeapXor", dst |-> 3, xs |-> <<1, 2, 1>>])[3] = B
       /\ E(A, B, [op |-> "AndAny", x |-> 1, xs |-> <<2, 2>>])[1] = A \cap B
       /\ \A c0, c1 \in 1..(U.ncell + 1) :
            LET f == [op |-> "Flip", x |-> 1, c0 |-> c0, c1 |-> c1]
            IN /\ Effect(U, E(A, B, f), f)[1] = A
               /\ E(A, B, f)[1] = (A \ AtomsIn(U, c0, c1)) \cup (AtomsIn(U, c0, c1) \ A)
               /\ Effect(U, E(A, B, [op |-> "AddRange", x |-> 1, c0 |-> c0, c1 |-> c1]),
                          [op |-> "RemoveRange", x |-> 1, c0 |-> c0, c1 |-> c1])[1] = A \ AtomsIn(U, c0, c1)
       /\ \A cl \in 1..U.ncell, side \in {0, 1} :
            \* next/previous are consistent with membership of the boundary atom and with rank
            /\ LET n == NextIn(U, A, cl, side) IN n.a # 0 => n.a \in A /\ U.cell[n.a] >= cl
            /\ LET p == PrevIn(U, A, cl, side) IN p.a # 0 => p.a \in A /\ U.cell[p.a] <= cl
            /\ LET n == NextIn(U, Complement(U, A), cl, side) IN n.a # 0 => n.a \notin A
            /\ NLe(RankAt(U, A, cl, 0), RankAt(U, A, cl, 1))
=============================================================================
