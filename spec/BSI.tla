-------------------------------- MODULE BSI --------------------------------
(* Bit-sliced index (both implementations: BitSliceIndexing.BSI over uint32 columns and              *)
(* roaring64.BSI over uint64 columns) as what it denotes: a partial map column -> integer.           *)
(*                                                                                                   *)
(* State of one index: [ex |-> set of columns that hold a value, v |-> [Cols -> Int]] (v[c] = 0 for  *)
(* c \notin ex).  Columns are abstract (1..NC); the harness maps them to concrete ids spread over     *)
(* several chunks / buckets.  Values are abstract small integers; the harness multiplies them by 2^k *)
(* (k fixed per trace) before handing them to the library and divides what it reads back - scaling   *)
(* by a power of two commutes with every action below except Increment, which is only issued when    *)
(* k = 0.                                                                                            *)
(*                                                                                                   *)
(* BEffect gives the map after an update, BResultOK constrains what a query returns.  The trace      *)
(* specification (TraceBSI) additionally compares, after EVERY call, the map observed through        *)
(* GetValue / ValueExists / GetCardinality (and GetBigValue / GetValues) with the specified one.      *)
EXTENDS Integers, Sequences, FiniteSets, FiniteSetsExt

BSlots == 1..3
ToSetB(s) == {s[i] : i \in DOMAIN s}
ColsOf(k) == IF "cols" \in DOMAIN k THEN ToSetB(k.cols) ELSE {}
EmptyIdx(Cols) == [ex |-> {}, v |-> [c \in Cols |-> 0]]

\* restriction of an index to a column set
RestrictIdx(ix, F) == [ex |-> ix.ex \cap F, v |-> [c \in DOMAIN ix.v |-> IF c \in F THEN ix.v[c] ELSE 0]]

BTarget(k) ==
  CASE k.op \in {"BNew", "BClone", "BRetainSet", "BMarshalRT", "BStreamRT"} -> k.dst
    [] k.op \in {"BSetValue", "BSetMany", "BClear", "BRetain", "BParOr", "BAdd", "BIncrement", "BRunOptimize"} -> k.x
    [] OTHER -> 0

BNew(Cols, b, k) ==
  LET x == IF "x" \in DOMAIN k THEN b[k.x] ELSE EmptyIdx(Cols) IN
  CASE k.op = "BNew" -> EmptyIdx(Cols)
    [] k.op \in {"BClone", "BMarshalRT", "BStreamRT"} -> x
    [] k.op = "BRetainSet" -> RestrictIdx(x, ColsOf(k))
    [] k.op = "BSetValue" -> [ex |-> x.ex \cup {k.col}, v |-> [x.v EXCEPT ![k.col] = k.val]]
    [] k.op = "BSetMany" -> [ex |-> x.ex \cup ColsOf(k), v |-> [c \in DOMAIN x.v |-> IF c \in ColsOf(k) THEN k.val ELSE x.v[c]]]
    [] k.op = "BClear" -> RestrictIdx(x, DOMAIN x.v \ ColsOf(k))
    [] k.op = "BRetain" -> RestrictIdx(x, ColsOf(k))
    [] k.op = "BRunOptimize" -> x
    \* ParOr: operands on pairwise disjoint column sets (driver obligation)
    [] k.op = "BParOr" -> [ex |-> x.ex \cup UNION {b[k.ys[i]].ex : i \in DOMAIN k.ys},
                           v |-> [c \in DOMAIN x.v |->
                                    IF \E i \in DOMAIN k.ys : c \in b[k.ys[i]].ex
                                    THEN b[k.ys[CHOOSE i \in DOMAIN k.ys : c \in b[k.ys[i]].ex]].v[c] ELSE x.v[c]]]
    \* Add: column-wise sum, a missing value counting as 0 (non-negative values: driver obligation)
    [] k.op = "BAdd" -> [ex |-> x.ex \cup b[k.y].ex, v |-> [c \in DOMAIN x.v |-> x.v[c] + b[k.y].v[c]]]
    \* Increment: +1 on the given columns, a missing value counting as 0 (k = 0 traces only)
    [] k.op = "BIncrement" -> [ex |-> x.ex \cup ColsOf(k), v |-> [c \in DOMAIN x.v |-> IF c \in ColsOf(k) THEN x.v[c] + 1 ELSE x.v[c]]]

BEffect(Cols, b, k) == IF BTarget(k) = 0 THEN b ELSE [b EXCEPT ![BTarget(k)] = BNew(Cols, b, k)]

---------------------------------------------------------------------------
Holds(op, a, lo, hi) ==
  CASE op = "LT" -> a < lo [] op = "LE" -> a <= lo [] op = "EQ" -> a = lo
    [] op = "GE" -> a >= lo [] op = "GT" -> a > lo [] op = "RANGE" -> a >= lo /\ a <= hi

\* the found-set F of a query: all existing columns, or the given existing columns
Found(ix, k) == IF k.all THEN ix.ex ELSE ColsOf(k) \cap ix.ex

SumOf(ix, F) == FoldSet(LAMBDA c, acc : acc + ix.v[c], 0, F)
MinOf(ix, F) == CHOOSE m \in {ix.v[c] : c \in F} : \A c \in F : m <= ix.v[c]
MaxOf(ix, F) == CHOOSE m \in {ix.v[c] : c \in F} : \A c \in F : m >= ix.v[c]

BHasResult(k) == k.op \in {"BCompare", "BCompareBSI", "BBatchEqual", "BBatchEqualValues", "BMinMax", "BSum", "BTranspose", "BTransposeCounts",
                           "BClone", "BRetainSet", "BMarshalRT", "BStreamRT", "BRetain"}

\* set of violated clauses
BClauses(b, k, r) ==
  LET x == b[k.x] IN
  CASE k.op = "BCompare" ->
         (IF ToSetB(r.cols) = {c \in Found(x, k) : Holds(k.cmp, x.v[c], k.lo, k.hi)} THEN {} ELSE {"wrong-columns"})
         \cup (IF r.other THEN {"column-outside-found-set"} ELSE {})
         \cup (IF r.indep THEN {} ELSE {"result-not-independent"})
    [] k.op = "BCompareBSI" ->
         (IF ToSetB(r.cols) = {c \in (IF k.all THEN x.ex ELSE ColsOf(k) \cap x.ex) \cap b[k.y].ex : Holds(k.cmp, x.v[c], b[k.y].v[c], 0)}
          THEN {} ELSE {"wrong-columns"})
         \cup (IF r.other THEN {"column-outside-found-set"} ELSE {})
    [] k.op = "BBatchEqual" ->
         (IF ToSetB(r.cols) = {c \in x.ex : x.v[c] \in ToSetB(k.vals)} THEN {} ELSE {"wrong-columns"})
         \cup (IF r.other THEN {"column-outside-found-set"} ELSE {})
         \cup (IF r.indep THEN {} ELSE {"result-not-independent"})
    [] k.op = "BBatchEqualValues" ->   \* pairs <<col, val>> compared as a set (order unspecified)
         IF {<<r.pairs[i][1], r.pairs[i][2]>> : i \in DOMAIN r.pairs} =
              {<<c, x.v[c]>> : c \in {d \in Found(x, k) : x.v[d] \in ToSetB(k.vals)}} /\ ~r.other
         THEN {} ELSE {"wrong-pairs"}
    [] k.op = "BMinMax" ->
         LET F == Found(x, k) IN
         IF F = {} \/ r.val = (IF k.cmp = "MIN" THEN MinOf(x, F) ELSE MaxOf(x, F)) THEN {} ELSE {"wrong-extremum"}
    [] k.op = "BSum" ->
         LET F == Found(x, k) IN
         (IF r.sum = SumOf(x, F) THEN {} ELSE {"wrong-sum"}) \cup (IF r.count = Cardinality(F) THEN {} ELSE {"wrong-count"})
    [] k.op = "BTranspose" ->
         IF ToSetB(r.vals) = {x.v[c] : c \in Found(x, k)} /\ ~r.other THEN {} ELSE {"wrong-values"}
    [] k.op = "BTransposeCounts" ->   \* pairs <<value, number of columns of F holding it>> (values >= 0: driver obligation)
         LET F == Found(x, k) IN
         IF {<<r.pairs[i][1], r.pairs[i][2]>> : i \in DOMAIN r.pairs} =
              {<<w, Cardinality({c \in F : x.v[c] = w})>> : w \in {x.v[c] : c \in F}} /\ ~r.other
         THEN {} ELSE {"wrong-histogram"}
    [] k.op \in {"BClone", "BRetainSet", "BMarshalRT", "BStreamRT"} ->
         (IF r.err THEN {"copy-error"} ELSE {}) \cup (IF r.equal \/ k.op = "BRetainSet" THEN {} ELSE {"copy-not-Equal"})
    [] k.op = "BRetain" -> IF r.dropped = Cardinality(x.ex \ ColsOf(k)) THEN {} ELSE {"wrong-dropped-count"}
    [] OTHER -> {}
=============================================================================
