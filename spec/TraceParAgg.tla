---------------------------- MODULE TraceParAgg ----------------------------
(* Trace validation of the parallel pipelines: gate events recorded from the real goroutines       *)
(* (harness/pargate.go; hooks at every channel operation of parallel.go) against ParAgg.tla.        *)
(*                                                                                                   *)
(* A recorded event is a state predicate on the model ("goroutine p has just received item i",      *)
(* "goroutine p is about to send / receive / close ..."), because the hook runs BEFORE every channel *)
(* operation and additionally AFTER a receive.  The trace specification may take any number of (unrecorded) model steps between *)
(* two recorded events; an event is consumed when its predicate holds.  A trace is accepted when TLC *)
(* finds a path that consumes every event, i.e. when the invariant NotFinished is VIOLATED; if the   *)
(* whole (trace-constrained) state space is exhausted without consuming all events, the recorded     *)
(* execution is not a behaviour of the model (register 1 = how far it got).                          *)
EXTENDS ParAgg, Json, IOUtils

Trace == ndJsonDeserialize(IOEnv.TRACE_FILE)

VARIABLE l
tvars == <<vars, l>>

W(p) == CASE p = "w1" -> 1 [] p = "w2" -> 2 [] p = "w3" -> 3 [] p = "w4" -> 4 [] OTHER -> 0

Holds(e) ==
  LET w == W(e.p) IN
  CASE e.p = "feeder" /\ e.site = "send" -> pc[100] = "f1" /\ fi = e.id
    [] e.p = "feeder" /\ e.site = "exit" -> pc[100] = "Done"
    [] w # 0 /\ e.site = "start" -> w \in Workers
    [] w # 0 /\ e.site = "wait" -> w \in Workers /\ pc[w] = "w0"          \* before the (next) receive
    [] w # 0 /\ e.site \in {"recv", "send"} -> w \in Workers /\ pc[w] = "w1" /\ item[w] = e.id
    [] w # 0 /\ e.site = "exit" -> w \in Workers /\ pc[w] = "Done"
    \* ParOr collector
    [] e.p = "main" /\ e.site = "wait" -> pc[102] \in {"m0", "m1"} /\ remaining > 0   \* before a receive of the collector
    [] e.p = "main" /\ e.site = "recv" -> e.id \in DOMAIN got /\ got[e.id] /\ pc[102] \in {"m1", "m2"}
    [] e.p = "main" /\ e.site = "closeChunk" -> pc[102] = "m2"
    [] e.p = "main" /\ e.site = "closeSpec" -> pc[102] = "m3"
    \* heap pipelines
    [] e.p = "main" /\ e.site = "sendInput" -> pc[102] = "h1" /\ mi = e.id /\ e.id < NItems /\ Items[e.id + 1] = "multi"
    [] e.p = "main" /\ e.site = "sendResult" -> pc[102] = "h1" /\ mi = e.id /\ e.id < NItems /\ Items[e.id + 1] = "single"
    [] e.p = "main" /\ e.site = "sendExpected" -> pc[102] = "h2" /\ e.id = NItems
    [] e.p = "main" /\ e.site = "waitBitmap" -> (pc[102] = "h3" /\ expChan = <<>>) \/ pc[102] = "h4"   \* the expected-count send has completed
    [] e.p = "appender" /\ e.site = "select" -> pc[101] \in {"a0", "a1"} /\ appended # expected
    [] e.p = "main" /\ e.site = "recvBitmap" -> pc[102] = "h5"
    [] e.p = "main" /\ e.site = "closeInput" -> pc[102] = "h5"
    [] e.p = "main" /\ e.site = "closeResult" -> pc[102] = "h6"
    [] e.p = "appender" /\ e.site = "recvResult" -> e.id \in DOMAIN got /\ got[e.id] /\ pc[101] \in {"a1", "a2"}
    [] e.p = "appender" /\ e.site = "recvExpected" -> expected = e.id /\ pc[101] \in {"a1", "a2"}
    [] e.p = "appender" /\ e.site = "sendBitmap" -> pc[101] = "a2"
    [] e.p = "main" /\ e.site = "returned" -> pc[102] \in {"ret", "Done"}
    [] OTHER -> FALSE          \* "hang", "panic", unknown sites: never a behaviour of the model

ResetModel ==
  /\ chanA' = <<>> /\ chanB' = <<>> /\ closedA' = FALSE /\ closedB' = FALSE
  /\ expChan' = <<>> /\ bitmapChan' = <<>> /\ sendOnClosed' = FALSE
  /\ got' = [i \in 0..(NItems - 1) |-> FALSE] /\ dup' = FALSE /\ returned' = FALSE
  /\ fi' = 0 /\ item' = [self \in Workers |-> -1] /\ expected' = -1 /\ appended' = 0
  /\ mi' = 0 /\ remaining' = NItems
  /\ pc' = [self \in ProcSet |-> CASE self = 100 -> "f0" [] self \in Workers -> "w0" [] self = 101 -> "a0" [] self = 102 -> "m0"]

TInit == Init /\ l = 1 /\ TLCSet(1, 0)

TNext ==
  \/ /\ l <= Len(Trace) /\ Trace[l].p = "reset"       \* next recorded run
     /\ ResetModel /\ l' = l + 1 /\ TLCSet(1, IF l > TLCGet(1) THEN l ELSE TLCGet(1))
  \/ /\ l <= Len(Trace) /\ Trace[l].p # "reset" /\ Holds(Trace[l])
     /\ UNCHANGED vars /\ l' = l + 1 /\ TLCSet(1, IF l > TLCGet(1) THEN l ELSE TLCGet(1))
  \/ /\ l <= Len(Trace) /\ Trace[l].p # "reset"        \* an unrecorded step of the model
     /\ Next /\ UNCHANGED l

TSpec == TInit /\ [][TNext]_tvars

\* Accepted <=> this invariant is violated (a state with every event consumed is reachable)
NotFinished == l <= Len(Trace)
\* the model's own safety properties along the constrained behaviours
SafeAlong == NoSendOnClosed /\ NoDuplicateResult
HighWater == PrintT(<<"HIGHWATER", TLCGet(1)>>)
=============================================================================
