----------------------------- MODULE TraceSet -----------------------------
(* Trace specification: validates executions of the real library, recorded by the Go harness as    *)
(* ndjson (one event per public call), against RoaringSet.  Many traces are concatenated in one    *)
(* file; an event with op = "U" starts a new trace and carries that trace's universe.               *)
(*                                                                                                  *)
(* The specification is deterministic given the trace (every event carries all arguments), so TLC  *)
(* is an interpreter here: one state per event.  A deviation of the code from the specification    *)
(* never disables the step; it is RECORDED (register 2) with trace id, event index and clause, and *)
(* the run continues from the observed state, so that one run reports every deviation of every     *)
(* trace.  Acceptance: all events consumed (register 1) -- see POSTCONDITION.                        *)
EXTENDS RoaringIter, SequencesExt, Json, TLC, IOUtils

Trace == ndJsonDeserialize(IOEnv.TRACE_FILE)

VARIABLES l,        \* index of the next event
          U,        \* universe of the current trace
          content,  \* [Slots -> SUBSET Atoms(U)]  what each slot denotes (observed, after resync)
          reps,     \* [Slots -> sequence of chunk records] last logged representation
          bad,      \* slots whose observed set was not a union of atoms (their content is best effort)
          iters     \* [ItIds -> iterator state]  (RoaringIter)
vars == <<l, U, content, reps, bad, iters>>

NoU == [nat |-> 0, ncell |-> 0]

Init ==
  /\ l = 1
  /\ U = NoU
  /\ content = [s \in Slots |-> {}]
  /\ reps = [s \in Slots |-> <<>>]
  /\ bad = {}
  /\ iters = [i \in ItIds |-> NoIt]
  /\ TLCSet(1, 0)
  /\ TLCSet(2, <<>>)

Record(vs) == vs = {} \/ TLCSet(2, TLCGet(2) \o SetToSeq(vs))

V(ev, clause, slot, detail) == [tr |-> ev.tr, i |-> ev.i, op |-> ev.op, clause |-> clause, slot |-> slot, detail |-> detail]

---------------------------------------------------------------------------
(* Representation clauses (C09 / C14 / C07 / C08), evaluated on the logged raw view.                *)
ARRMAX == 4096

KeysIncreasing(ch) == \A i \in 1..(Len(ch) - 1) : ch[i].k < ch[i + 1].k

ChunkClauses(ch) ==
  {cl \in {"wf-keys", "wf-empty", "wf-array", "wf-bitmap", "wf-run", "wf-kind"} :
     CASE cl = "wf-keys" -> ~KeysIncreasing(ch)
       [] cl = "wf-empty" -> \E i \in DOMAIN ch : ch[i].n = 0
       [] cl = "wf-array" -> \E i \in DOMAIN ch : ch[i].t = 0 /\ (ch[i].n > ARRMAX \/ ~ch[i].v)
       [] cl = "wf-bitmap" -> \E i \in DOMAIN ch : ch[i].t = 1 /\ (ch[i].n <= ARRMAX \/ ch[i].c # ch[i].n \/ ~ch[i].v)
       [] cl = "wf-run" -> \E i \in DOMAIN ch : ch[i].t = 2 /\ (ch[i].r < 1 \/ ~ch[i].v)
       [] cl = "wf-kind" -> \E i \in DOMAIN ch : ch[i].t \notin {0, 1, 2}}

\* serialized size <= 8 + 9*ceil(x/65536) + 2*N   and   <= BoundSerializedSizeInBytes(N, x)
SizeClauses(rp, N) ==
  (IF NLe(rp.sz, NAdd(NOfInt(8 + 9 * rp.mx), NAdd(N, N))) THEN {} ELSE {"size-readme"})
  \cup (IF rp.mx = 0 \/ NLe(rp.sz, rp.bd) THEN {} ELSE {"size-bound"})

RepViol(ev, rp, obs) ==
  {V(ev, cl, rp.s, "") : cl \in ChunkClauses(rp.ch)}
  \cup (IF rp.tbl THEN {} ELSE {V(ev, "wf-tables", rp.s, "")})
  \cup (IF rp.val = "" THEN {} ELSE {V(ev, "validate", rp.s, rp.val)})
  \cup (IF rp.s \in bad THEN {} ELSE {V(ev, cl, rp.s, "") : cl \in SizeClauses(rp, W(U, obs[rp.s]))})
  \* the bitmap's own cardinality / emptiness must agree with what it contains (a representation with duplicate
  \* keys or wrong cached counts denotes the right SET of integers but answers wrongly)
  \cup (IF rp.s \in bad \/ NEq(rp.gc, W(U, obs[rp.s])) THEN {} ELSE {V(ev, "cardinality-mismatch", rp.s, rp.gc)})
  \cup (IF rp.s \in bad \/ rp.emp = (obs[rp.s] = {}) THEN {} ELSE {V(ev, "isempty-mismatch", rp.s, "")})

\* structural sharing discipline over the last logged representation of all slots (latent: a
\* behavioural witness is what counts, see DESIGN 6)
ObjsOf(rs, s) == {rs[s][i].o : i \in DOMAIN rs[s]} \ {0}
UnflaggedOf(rs, s) == {rs[s][i].o : i \in {j \in DOMAIN rs[s] : ~rs[s][j].s}} \ {0}
ShareViol(ev, rs) ==
  {V(ev, "share-unflagged", s1, "") : s1 \in {s \in Slots :
      \E s2 \in Slots \ {s} :
         (ObjsOf(rs, s) \cap ObjsOf(rs, s2)) \cap (UnflaggedOf(rs, s) \cup UnflaggedOf(rs, s2)) # {}}}
  \cup {V(ev, "foreign-unflagged", s1, "") : s1 \in {s \in Slots : \E i \in DOMAIN rs[s] : rs[s][i].m # 0 /\ ~rs[s][i].s}}

---------------------------------------------------------------------------
Observed(c, ev) == [s \in Slots |-> IF \E i \in DOMAIN ev.post : ev.post[i].s = s
                                    THEN ToSet(ev.post[CHOOSE i \in DOMAIN ev.post : ev.post[i].s = s].a)
                                    ELSE c[s]]

StartTrace(ev) ==
  /\ U' = ev
  /\ content' = [s \in Slots |-> {}]
  /\ reps' = [s \in Slots |-> <<>>]
  /\ bad' = {}
  /\ iters' = [i \in ItIds |-> NoIt]

Call(ev) ==
  LET exp == Effect(U, content, ev)
      obs == Observed(content, ev)
      nowbad == {ev.bad[i].s : i \in DOMAIN ev.bad}
      panicked == ev.panic # ""
      inputsOK == Reads(ev) \cap bad = {}     \* operands whose observed set was not a union of atoms cannot be judged
      vPanic == IF panicked THEN {V(ev, "panic", 0, ev.panic)} ELSE {}
      vBad == {V(ev, "not-a-union-of-atoms", ev.bad[i].s, ev.bad[i].m) : i \in {j \in DOMAIN ev.bad : ev.bad[j].s \notin bad}}
      \* content: every slot not known to be bad must hold what the specification says
      wrong == {s \in Slots : s \notin nowbad /\ s \notin bad /\ (s = Target(ev) => inputsOK) /\ exp[s] # obs[s]}
      vContent == IF panicked THEN {} ELSE
                    {V(ev, IF s = Target(ev) THEN "content" ELSE "interference", s,
                       [exp |-> exp[s], obs |-> obs[s]]) : s \in wrong}
      vRet == IF ~panicked /\ HasResult(ev) /\ inputsOK /\ ~ResultOK(U, content, ev, ev.ret)
              THEN {V(ev, "result", 0, IF SerialClauses(ev, ev.ret) # {} THEN SerialClauses(ev, ev.ret) ELSE ev.ret)} ELSE {}
      \* a stream the library itself wrote from a valid bitmap must be read back by every entry point (C18 / C05 round trip)
      vValid == IF ev.op = "Decode" /\ "mustok" \in DOMAIN ev.ret /\ ev.ret.mustok /\ ev.ret.outcome = "err"
                THEN {V(ev, "result", 0, <<"valid-stream-rejected", ev.ret.entry>>)} ELSE {}
      vIter == IF ~panicked /\ IterHasResult(ev) /\ inputsOK /\ IterClauses(U, content, iters, ev, ev.ret) # {}
               THEN {V(ev, "iteration", 0, IterClauses(U, content, iters, ev, ev.ret))} ELSE {}
      vList == IF ~panicked /\ HasListing(ev) /\ inputsOK /\ ToSet(ev.arr) # ListingOf(U, content, ev)
               THEN {V(ev, "listing", 0, ev.arr)} ELSE {}
      vAux == IF ev.aux THEN {} ELSE {V(ev, "aux", 0, "")}
      vArg == IF ev.argok THEN {} ELSE {V(ev, "argument-slice-modified", 0, "")}
      vBuf == IF ev.bufch = <<>> THEN {} ELSE {V(ev, "caller-buffer-written", 0, [ids |-> ev.bufch, frozen |-> ev.bufrz])}
      vGor == IF "gor" \in DOMAIN ev /\ ev.gor > 0 THEN {V(ev, "goroutine-leak", 0, ev.gor)} ELSE {}
      vAlias == {V(ev, "result-aliases-input", ev.alias[i][1], ev.alias[i][2]) : i \in DOMAIN ev.alias}
      vProbe == {V(ev, IF ev.probe[i].b = 0 THEN "caller-buffer-written" ELSE "sharing-witnessed", ev.probe[i].a,
                   IF ev.probe[i].b = 0 THEN [ids |-> <<>>, frozen |-> ev.probe[i].f] ELSE ev.probe[i].b) :
                   i \in {j \in DOMAIN ev.probe : ev.probe[j].w}}
      rs == [s \in Slots |-> IF \E i \in DOMAIN ev.rep : ev.rep[i].s = s
                             THEN ev.rep[CHOOSE i \in DOMAIN ev.rep : ev.rep[i].s = s].ch ELSE reps[s]]
      vRep == UNION {RepViol(ev, ev.rep[i], obs) : i \in DOMAIN ev.rep}
      vShare == ShareViol(ev, rs)
  IN /\ content' = obs
     /\ reps' = rs
     /\ bad' = (bad \ {ev.post[i].s : i \in DOMAIN ev.post}) \cup nowbad
     /\ U' = U
     /\ iters' = IF ev.op \in ItOps THEN IterStep(U, content, iters, ev) ELSE iters
     /\ Record(vPanic \cup vBad \cup vContent \cup vRet \cup vList \cup vAux \cup vArg \cup vBuf \cup vRep \cup vShare \cup vAlias \cup vProbe \cup vGor \cup vIter \cup vValid)

Next ==
  /\ l <= Len(Trace)
  /\ l' = l + 1
  /\ TLCSet(1, l)
  /\ IF Trace[l].op = "U" THEN StartTrace(Trace[l]) ELSE Call(Trace[l])

Spec == Init /\ [][Next]_vars

\* Acceptance: every event was consumed; the recorded deviations are written out for the runner.
Accepted ==
  /\ ndJsonSerialize(IOEnv.VIOL_FILE, TLCGet(2))
  /\ TLCGet(1) = Len(Trace)
=============================================================================
