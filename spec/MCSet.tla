------------------------------- MODULE MCSet -------------------------------
(* Bounded models of RoaringSet.  TLC (a) checks the specification-level properties on them and     *)
(* (b) generates the behaviours that the Go harness replays into the real library under a catalogue *)
(* of concretisations (S->C).  One source of truth: Effect / Result come from RoaringSet.            *)
(*                                                                                                   *)
(* Mode "pairs"  : the initial states range over ALL pairs of subsets for slots 1,2; one binary      *)
(*                 algebra call is taken (C01).  Every transition is emitted as a script             *)
(*                 <<Build 1, Build 2, call>>.                                                        *)
(* Mode "hist"   : slots start empty, mutation calls (C02) -- explored exhaustively to depth Depth   *)
(*                 or by -simulate; the history is emitted when it reaches Depth.                    *)
(* Mode "step"   : the initial states range over all subsets for slot 1; one mutation or query call  *)
(*                 (C02/C03/C15/C16); every transition is emitted as <<Build 1, call>>.              *)
(* Mode "agg"    : all pairs of subsets (slots 1,2; slot 3 is full, slot 4 empty) and one aggregate   *)
(*                 call over every list of length 0..MaxList of slots 1..4 (duplicates allowed) (C11).*)
EXTENDS RoaringSet, TLC, Json, SequencesExt

CONSTANTS Mode, Depth, Struct, MaxList

\* ---- small universes (weights are arbitrary but consistent; replays use their own) ----------------
N1(n) == NOfInt(n)
\* S6: 3 cells x 2 interleaved atoms
US6 == [nat |-> 6, ncell |-> 3, cell |-> <<1, 1, 2, 2, 3, 3>>,
        w |-> <<N1(2), N1(3), N1(4), N1(4), N1(70000), N1(5)>>,
        lo |-> <<1, 2, 3, 4, 5, 6>>, hi |-> <<1, 2, 4, 3, 5, 6>>, single |-> <<>>,
        sh |-> << <<1, 2, 3, 4, 5, 6>>, <<3, 4, 5, 6, 0, 0>>, <<0, 0, 1, 2, 3, 4>> >>]
\* S7: point, 2 atoms, point, 2 atoms, point
US7 == [nat |-> 7, ncell |-> 5, cell |-> <<1, 2, 2, 3, 4, 4, 5>>,
        w |-> <<N1(1), N1(3), N1(4097), N1(1), N1(65536), N1(5), N1(1)>>,
        lo |-> <<1, 2, 3, 4, 5, 6, 7>>, hi |-> <<1, 3, 2, 4, 5, 6, 7>>, single |-> <<1, 4, 7>>,
        sh |-> << <<1, 2, 3, 4, 5, 6, 7>> >>]
\* S4: 4 cells x 1 atom (periodic: AddOffset by whole cells)
US4 == [nat |-> 4, ncell |-> 4, cell |-> <<1, 2, 3, 4>>,
        w |-> <<N1(7), N1(7), N1(7), N1(7)>>,
        lo |-> <<1, 2, 3, 4>>, hi |-> <<1, 2, 3, 4>>, single |-> <<>>,
        sh |-> << <<0, 0, 0, 0>>, <<0, 0, 0, 1>>, <<0, 0, 1, 2>>, <<0, 1, 2, 3>>, <<1, 2, 3, 4>>,
                  <<2, 3, 4, 0>>, <<3, 4, 0, 0>>, <<4, 0, 0, 0>>, <<0, 0, 0, 0>> >>]
\* S8: 4 cells x 2 atoms
US8 == [nat |-> 8, ncell |-> 4, cell |-> <<1, 1, 2, 2, 3, 3, 4, 4>>,
        w |-> <<N1(2), N1(3), N1(4), N1(4), N1(70000), N1(5), N1(9), N1(9)>>,
        lo |-> <<1, 2, 3, 4, 5, 6, 7, 8>>, hi |-> <<1, 2, 4, 3, 5, 6, 7, 8>>, single |-> <<>>,
        sh |-> << <<1, 2, 3, 4, 5, 6, 7, 8>> >>]

\* K5: 5 cells x 2 interleaved atoms. Mode "keys" uses the first atom of each cell only and the replayer makes every
\* cell one whole chunk (or two): the pairs then enumerate EVERY alignment of chunk keys between two bitmaps (keys
\* private to either side before / between / after shared keys), each chunk holding a texture (array / bitmap / run).
US10 == [nat |-> 10, ncell |-> 5, cell |-> <<1, 1, 2, 2, 3, 3, 4, 4, 5, 5>>,
         w |-> <<N1(2), N1(3), N1(4), N1(4), N1(70000), N1(5), N1(9), N1(9), N1(1), N1(6)>>,
         lo |-> <<1, 2, 3, 4, 5, 6, 7, 8, 9, 10>>, hi |-> <<1, 2, 3, 4, 5, 6, 7, 8, 9, 10>>, single |-> <<>>,
         sh |-> << <<1, 2, 3, 4, 5, 6, 7, 8, 9, 10>> >>]

UOf(s) == CASE s = "S6" -> US6 [] s = "S7" -> US7 [] s = "S4" -> US4 [] s = "S8" -> US8 [] s = "K5" -> US10

VARIABLES content, hist
vars == <<content, hist>>
U == UOf(Struct)
A == Atoms(U)
Empty == [s \in Slots |-> {}]
Singles == ToSet(U.single)
CellEnds == 1..(U.ncell + 1)

Build(s, S) == [op |-> "Build", dst |-> s, as |-> SetToSeq(S)]

BinOps == {"And", "Or", "Xor", "AndNot"}
StatOps == {"AndS", "OrS", "XorS", "AndNotS"}
CutOps == {"AndCard", "OrCard", "Intersects", "Equals"}
PairCalls ==
  {[op |-> o, x |-> x, y |-> y] : o \in BinOps \cup CutOps, x \in {1, 2}, y \in {1, 2}}
  \cup {[op |-> o, dst |-> 3, x |-> x, y |-> y] : o \in StatOps, x \in {1, 2}, y \in {1, 2}}

PointCalls(x) == {[op |-> o, x |-> x, a |-> a] : o \in {"Add", "AddInt", "CheckedAdd", "Remove", "CheckedRemove"}, a \in Singles}
RangeCalls(x) == {[op |-> o, x |-> x, c0 |-> c0, c1 |-> c1] : o \in {"AddRange", "RemoveRange", "Flip"}, c0 \in CellEnds, c1 \in CellEnds}
ManyCalls(x) == {[op |-> "AddMany", x |-> x, as |-> s] : s \in {<<>>} \cup {<<a>> : a \in Singles} \cup {<<a, b>> : a \in Singles, b \in Singles}
                                                              \cup {<<a, b, a>> : a \in Singles, b \in Singles}}
MaintCalls(x) == {[op |-> o, x |-> x] : o \in {"Clear", "RunOptimize", "Detach"}}
                 \cup {[op |-> "SetCOW", x |-> x, v |-> v] : v \in {0, 1}}
                 \cup {[op |-> "Clone", dst |-> 3 - x, x |-> x]}
MutCalls(x) == PointCalls(x) \cup RangeCalls(x) \cup ManyCalls(x) \cup MaintCalls(x)

QueryCalls(x) ==
  {[op |-> o, x |-> x] : o \in {"IsEmpty", "Card", "Min", "Max", "ToArray", "ChecksumRT"}}
  \cup {[op |-> "Contains", x |-> x, a |-> a] : a \in Singles}
  \cup {[op |-> o, x |-> x, c0 |-> cl, side |-> sd] :
          o \in {"Rank", "NextValue", "PreviousValue", "NextAbsentValue", "PreviousAbsentValue"},
          cl \in 1..U.ncell, sd \in {0, 1}}
  \cup {[op |-> o, x |-> x, c0 |-> p[1], c1 |-> p[2]] : o \in {"CardInRange", "IntersectsInterval"},
          p \in {q \in CellEnds \X CellEnds : q[1] <= q[2]}}
  \cup {[op |-> "SelectAuto", x |-> x, v |-> v] : v \in 0..(2 * U.ncell + 2)}
TransCalls(x) ==
  {[op |-> "FlipS", dst |-> 2, x |-> x, c0 |-> c0, c1 |-> c1] : c0 \in CellEnds, c1 \in CellEnds}
  \cup {[op |-> "AddOffset", dst |-> 2, x |-> x, j |-> j] : j \in DOMAIN U.sh}
  \cup {[op |-> "DenseRT", dst |-> 2, x |-> x, v |-> v] : v \in 0..7}
  \cup {[op |-> "BitSetRT", dst |-> 2, x |-> x]}

SerialCalls(x) ==
  {[op |-> "Ser", x |-> x, v |-> v] : v \in 0..3}
  \cup {[op |-> "Load", dst |-> d, x |-> x, v |-> v, w |-> w, j |-> j] : d \in {1, 2}, v \in 0..5, w \in {0, 1}, j \in {0, 1, 4, 6}}
  \cup {[op |-> "WriteFail", x |-> x, v |-> v, w |-> w] : v \in 0..3, w \in {0, 1}}
  \cup {[op |-> "Freeze", x |-> x, v |-> v] : v \in 0..3}
  \cup {[op |-> "FrozenRT", dst |-> d, x |-> x, v |-> v] : d \in {1, 2}, v \in {0, 1}}
LegalCalls ==
  {[op |-> "LoadLegal", dst |-> 2, as |-> SetToSeq(S), v |-> v, w |-> w, j |-> 4] : S \in SUBSET A, v \in 0..63, w \in 0..4}

ItNewCalls == {[op |-> "ItNew", a |-> 1, x |-> 1, rcp |-> kd, j |-> j] : kd \in {"fwd", "rev", "many"}, j \in {0, 3, 5, 9}}
              \cup {[op |-> "ItNew", a |-> 1, x |-> 1, rcp |-> "unset", c0 |-> p[1], c1 |-> p[2], j |-> 0] :
                       p \in {q \in CellEnds \X CellEnds : q[1] <= q[2]}}
\* (v is ignored by the harness: it only makes ItTake as likely as the many ItAdvance variants under -simulate)
ItStepCalls == {[op |-> "ItTake", a |-> 1, v |-> n] : n \in 1..8} \cup {[op |-> "ItPeek", a |-> 1, v |-> n] : n \in 1..2}
               \cup {[op |-> "ItAdvance", a |-> 1, c0 |-> cl, side |-> sd] : cl \in 1..U.ncell, sd \in {0, 1}}
OneShotCalls(x) ==
  {[op |-> "IterCb", x |-> x, rcp |-> w, c0 |-> cl] : w \in {"Iterate", "Values", "Backward"}, cl \in 1..U.ncell}
  \cup {[op |-> "IterCb", x |-> x, rcp |-> "Unset", c0 |-> p[2], c1 |-> p[1]] : p \in {q \in (1..U.ncell) \X (1..U.ncell) : q[1] <= q[2]}}
  \cup {[op |-> "Ranges", x |-> x, v |-> v] : v \in {0, 1, 2, 3}}

\* copy-on-write scenarios (C07/C08/C02): slot 1 is built with copy-on-write, slot 2 is its clone (sharing every
\* chunk), slot 3 an independent operand; then private writes and in-place operations at whole-cell (= whole-chunk)
\* granularity, in every order the simulation draws
CowWrites == {[op |-> o, x |-> s, c0 |-> cl, c1 |-> cl + 1] : o \in {"AddRange", "RemoveRange", "Flip"}, s \in {1, 2}, cl \in 1..U.ncell}
CowOps == {[op |-> o, x |-> s, y |-> 3] : o \in BinOps, s \in {1, 2}}
          \cup {[op |-> o, x |-> s, c0 |-> p[1], c1 |-> p[2]] : o \in {"RemoveRange", "Flip", "AddRange"}, s \in {1, 2},
                   p \in {q \in CellEnds \X CellEnds : q[1] < q[2]}}
          \cup {[op |-> "Clone", dst |-> 4, x |-> s] : s \in {1, 2}}
          \cup {[op |-> o, dst |-> 4, x |-> s, y |-> 3] : o \in StatOps, s \in {1, 2}}

AggOps == {"FastOr", "HeapOr", "ParOr", "ParHeapOr", "FastAnd", "ParAnd", "HeapXor"}
Lists == UNION {[1..n -> 1..4] : n \in 0..MaxList}
AggCalls ==
  {[op |-> o, dst |-> 5, xs |-> xs, w |-> w] : o \in AggOps, xs \in Lists, w \in {2}}
  \cup {[op |-> "AndAny", x |-> 1, xs |-> xs] : xs \in Lists \ {<<>>}}

\* SelectAuto is resolved by the replayer (index at the v-th cumulative-weight boundary of the
\* concrete universe); on the model it is a stuttering query.
Eff(c, k) == IF k.op \in {"SelectAuto", "ItNew", "ItTake", "ItPeek", "ItAdvance", "IterCb", "Ranges"} THEN c ELSE Effect(U, c, k)

Init ==
  /\ (Mode # "cow" => hist = <<>>)
  /\ CASE Mode = "pairs" -> \E S1, S2 \in SUBSET A : content = [Empty EXCEPT ![1] = S1, ![2] = S2]
       [] Mode = "keys" -> \E S1, S2 \in SUBSET {a \in A : a % 2 = 1} : content = [Empty EXCEPT ![1] = S1, ![2] = S2]
       [] Mode \in {"step", "serial", "iter", "oneshot"} -> \E S1 \in SUBSET A : content = [Empty EXCEPT ![1] = S1]
       [] Mode = "legal" -> content = Empty
       [] Mode = "agg" -> \E S1, S2 \in SUBSET A : content = [Empty EXCEPT ![1] = S1, ![2] = S2, ![3] = A]
       [] Mode = "hist" -> content = Empty
       [] Mode = "cow" -> \E S1, S3 \in SUBSET A :
                            /\ content = [Empty EXCEPT ![1] = S1, ![2] = S1, ![3] = S3]
                            /\ hist = <<[op |-> "Build", dst |-> 1, as |-> SetToSeq(S1), rcp |-> "Rc"],
                                        [op |-> "Clone", dst |-> 2, x |-> 1], Build(3, S3)>>

Calls ==
  CASE Mode \in {"pairs", "keys"} -> PairCalls
    [] Mode = "step" -> MutCalls(1) \cup QueryCalls(1) \cup TransCalls(1)
    [] Mode = "agg" -> AggCalls
    [] Mode = "serial" -> SerialCalls(1)
    [] Mode = "oneshot" -> OneShotCalls(1)
    [] Mode = "iter" -> IF hist = <<>> THEN ItNewCalls ELSE ItStepCalls
    [] Mode = "legal" -> LegalCalls
    [] Mode = "cow" -> IF Len(hist) % 2 = 1 THEN CowWrites ELSE CowOps
    [] Mode = "hist" -> MutCalls(1) \cup MutCalls(2) \cup
                        {[op |-> o, x |-> x, y |-> 3 - x] : o \in BinOps, x \in {1, 2}}

Next ==
  \/ /\ Len(hist) < Depth
     /\ \E k \in Calls :
          /\ content' = Eff(content, k)
          /\ hist' = Append(hist, k)
  \/ \* hist / iter mode: a completed history is emitted exactly once, by the step that closes it
     /\ Mode \in {"hist", "iter", "cow"} /\ Len(hist) = Depth
     /\ PrintT(ToJson([st |-> Struct, calls |-> (IF Mode = "iter" THEN <<Build(1, content[1])>> ELSE <<>>) \o hist]))
     /\ hist' = Append(hist, [op |-> "End"])
     /\ content' = content

Spec == Init /\ [][Next]_vars

\* ---- emission of scripts for the replayer -----------------------------------------------------------
Prefix(c) ==
  CASE Mode \in {"pairs", "keys"} -> <<Build(1, c[1]), Build(2, c[2])>>
    [] Mode \in {"step", "serial", "oneshot"} -> <<Build(1, c[1])>>
    [] Mode = "iter" -> <<>>
    [] Mode = "legal" -> <<>>
    [] Mode = "agg" -> <<Build(1, c[1]), Build(2, c[2]), Build(3, c[3])>>
    [] Mode = "hist" -> <<>>

\* one line per transition (one-step modes) -- used as ACTION_CONSTRAINT, always TRUE
EmitStep ==
  \/ Mode \in {"hist", "iter", "cow"}
  \/ PrintT(ToJson([st |-> Struct, calls |-> Prefix(content) \o hist']))

\* ---- properties checked on the model ----------------------------------------------------------------
TypeOK == content \in [Slots -> SUBSET A]

\* Only the target of a call changes (the behavioural half of C07; read-only-ness of queries, C03).
OnlyTargetChanges ==
  [][hist'[Len(hist')].op # "End" => \A s \in Slots : s # Target(hist'[Len(hist')]) => content'[s] = content[s]]_vars

\* Results of queries are mutually consistent on every reachable state (C03/C15 sanity of the oracle).
QueriesConsistent ==
  \A s \in {1, 2} :
    LET S == content[s] IN
      /\ (S = {}) <=> NIsZero(W(U, S))
      /\ \A cl \in 1..U.ncell : NLe(RankAt(U, S, cl, 1), W(U, S))
      /\ RankAt(U, S, U.ncell, 1) = W(U, S)
      /\ LmFirst(U, S) = NextIn(U, S, 1, 0)
      /\ LmLast(U, S) = PrevIn(U, S, U.ncell, 1)
      /\ \A cl \in 1..U.ncell : \A sd \in {0, 1} :
           LET n == NextIn(U, S, cl, sd)  na == NextIn(U, Complement(U, S), cl, sd) IN
             /\ (n.a = 0 /\ na.a = 0) => FALSE      \* one of "next present"/"next absent" always exists
             /\ n.a # 0 => n.a \in S
             /\ na.a # 0 => na.a \notin S

ASSUME LawsHold(US6)
ASSUME LawsHold(US7)
=============================================================================
