------------------------------ MODULE MCParAgg ------------------------------
EXTENDS ParAgg, Json
I0 == <<>>
I1 == <<"multi">>
I2 == <<"single", "multi">>
I3 == <<"multi", "single", "multi">>
I4 == <<"multi", "multi", "multi", "multi">>
I5 == <<"single", "single", "multi", "single", "multi">>
\* parameter sweep of the partition arithmetic: printed for the runner, which concretises the
\* counterexamples at 16 bits and tries them on the real ParOr
SweepInit == PrintT(ToJson([fixedwidth |-> FixedWidth, bad |-> BadPartitions(FixedWidth, 5)]))
=============================================================================
