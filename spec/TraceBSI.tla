----------------------------- MODULE TraceBSI -----------------------------
(* Trace specification for the bit-sliced indexes: validates recorded executions of either BSI       *)
(* implementation against BSI.tla.  Same conventions as TraceSet: one state per event, deviations are *)
(* recorded (register 2) and the run continues from the observed state.                               *)
EXTENDS BSI, SequencesExt, Json, TLC, IOUtils

Trace == ndJsonDeserialize(IOEnv.TRACE_FILE)

VARIABLES l, Cols, b
vars == <<l, Cols, b>>

Init ==
  /\ l = 1
  /\ Cols = {}
  /\ b = [s \in BSlots |-> EmptyIdx({})]
  /\ TLCSet(1, 0)
  /\ TLCSet(2, <<>>)

Record(vs) == vs = {} \/ TLCSet(2, TLCGet(2) \o SetToSeq(vs))
V(ev, clause, slot, detail) == [tr |-> ev.tr, i |-> ev.i, op |-> ev.op, clause |-> clause, slot |-> slot, detail |-> detail]

\* the map observed through the read API, as logged: obs = <<[s, ex, v: <<<<col, val>>, ...>>, card, bad]>>
ObsIdx(o) == [ex |-> ToSetB(o.ex),
              v |-> [c \in Cols |-> IF \E i \in DOMAIN o.v : o.v[i][1] = c
                                     THEN o.v[CHOOSE i \in DOMAIN o.v : o.v[i][1] = c][2] ELSE 0]]
Observed(cur, ev) == [s \in BSlots |-> IF \E i \in DOMAIN ev.obs : ev.obs[i].s = s
                                        THEN ObsIdx(ev.obs[CHOOSE i \in DOMAIN ev.obs : ev.obs[i].s = s]) ELSE cur[s]]

Start(ev) ==
  /\ Cols' = 1..ev.nc
  /\ b' = [s \in BSlots |-> EmptyIdx(1..ev.nc)]

Call(ev) ==
  LET exp == BEffect(Cols, b, ev)
      obs == Observed(b, ev)
      panicked == ev.panic # ""
      vPanic == IF panicked THEN {V(ev, "panic", 0, ev.panic)} ELSE {}
      vLeak == IF "left" \in DOMAIN ev /\ ev.left > 0 THEN {V(ev, "goroutine-leak", 0, ev.left)} ELSE {}
      vMap == IF panicked THEN {} ELSE
                {V(ev, IF s = BTarget(ev) THEN "map" ELSE "interference", s, [exp |-> exp[s], obs |-> obs[s]]) :
                   s \in {t \in BSlots : exp[t] # obs[t]}}
      vRead == {V(ev, "read-api-inconsistent", ev.obs[i].s, ev.obs[i].bad) : i \in {j \in DOMAIN ev.obs : ev.obs[j].bad # ""}}
      vCard == {V(ev, "cardinality", ev.obs[i].s, ev.obs[i].card) :
                  i \in {j \in DOMAIN ev.obs : ev.obs[j].card # Cardinality(ToSetB(ev.obs[j].ex))}}
      vPlanes == {V(ev, "plane-outside-existence", ev.obs[i].s, "") : i \in {j \in DOMAIN ev.obs : ~ev.obs[j].planesok}}
      negX == "x" \in DOMAIN ev /\ \E c \in Cols : b[ev.x].v[c] < 0
      vRes == IF ~panicked /\ BHasResult(ev) /\ BClauses(b, ev, ev.ret) # {}
              THEN {V(ev, "result", 0, [clauses |-> BClauses(b, ev, ev.ret), neg |-> negX])} ELSE {}
  IN /\ b' = obs
     /\ Cols' = Cols
     /\ Record(vPanic \cup vLeak \cup vMap \cup vRead \cup vCard \cup vPlanes \cup vRes)

Next ==
  /\ l <= Len(Trace)
  /\ l' = l + 1
  /\ TLCSet(1, l)
  /\ IF Trace[l].op = "BU" THEN Start(Trace[l]) ELSE Call(Trace[l])

Spec == Init /\ [][Next]_vars

Accepted ==
  /\ ndJsonSerialize(IOEnv.VIOL_FILE, TLCGet(2))
  /\ TLCGet(1) = Len(Trace)
=============================================================================
