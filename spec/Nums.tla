------------------------------- MODULE Nums -------------------------------
(* Non-negative integers below 2^80 as five base-65536 digits, little endian.  TLC's integers are   *)
(* 32-bit; cardinalities of sets of uint32/uint64 are not.  The Go harness logs every count in this *)
(* form and the specification computes the expected counts in this form.                             *)
EXTENDS Integers, Sequences, FiniteSets, FiniteSetsExt

NB == 65536
NZero == <<0, 0, 0, 0, 0>>
NOne == <<1, 0, 0, 0, 0>>

\* carry-normalise five non-negative columns (each < 2^30)
Norm(d) ==
  LET r1 == d[1] % NB  c1 == d[1] \div NB
      s2 == d[2] + c1  r2 == s2 % NB  c2 == s2 \div NB
      s3 == d[3] + c2  r3 == s3 % NB  c3 == s3 \div NB
      s4 == d[4] + c3  r4 == s4 % NB  c4 == s4 \div NB
      s5 == d[5] + c4
  IN <<r1, r2, r3, r4, s5>>

NOfInt(n) == Norm(<<n, 0, 0, 0, 0>>)

NAdd(a, b) == Norm(<<a[1] + b[1], a[2] + b[2], a[3] + b[3], a[4] + b[4], a[5] + b[5]>>)

\* sum of f[x] over x \in S   (|S| < 2^14 so columns stay below 2^30)
NSum(f, S) ==
  Norm(<<FoldSet(LAMBDA x, acc : acc + f[x][1], 0, S),
         FoldSet(LAMBDA x, acc : acc + f[x][2], 0, S),
         FoldSet(LAMBDA x, acc : acc + f[x][3], 0, S),
         FoldSet(LAMBDA x, acc : acc + f[x][4], 0, S),
         FoldSet(LAMBDA x, acc : acc + f[x][5], 0, S)>>)

NLt(a, b) ==
  \/ a[5] < b[5]
  \/ a[5] = b[5] /\ a[4] < b[4]
  \/ a[5] = b[5] /\ a[4] = b[4] /\ a[3] < b[3]
  \/ a[5] = b[5] /\ a[4] = b[4] /\ a[3] = b[3] /\ a[2] < b[2]
  \/ a[5] = b[5] /\ a[4] = b[4] /\ a[3] = b[3] /\ a[2] = b[2] /\ a[1] < b[1]

NEq(a, b) == a[1] = b[1] /\ a[2] = b[2] /\ a[3] = b[3] /\ a[4] = b[4] /\ a[5] = b[5]
NLe(a, b) == NLt(a, b) \/ NEq(a, b)
NIsZero(a) == NEq(a, NZero)

\* a small multiple: k * a for 0 <= k < 2^13
NScale(k, a) == Norm(<<k * a[1], k * a[2], k * a[3], k * a[4], k * a[5]>>)

\* predecessor of a positive number
NDec(a) ==
  IF a[1] > 0 THEN <<a[1] - 1, a[2], a[3], a[4], a[5]>>
  ELSE IF a[2] > 0 THEN <<NB - 1, a[2] - 1, a[3], a[4], a[5]>>
  ELSE IF a[3] > 0 THEN <<NB - 1, NB - 1, a[3] - 1, a[4], a[5]>>
  ELSE IF a[4] > 0 THEN <<NB - 1, NB - 1, NB - 1, a[4] - 1, a[5]>>
  ELSE <<NB - 1, NB - 1, NB - 1, NB - 1, a[5] - 1>>

\* sanity of the arithmetic itself (checked by TLC when the module is loaded)
ASSUME NAdd(<<65535, 65535, 0, 0, 0>>, NOne) = <<0, 0, 1, 0, 0>>
ASSUME NScale(9, <<65535, 1, 0, 0, 0>>) = <<65527, 17, 0, 0, 0>>
ASSUME NLt(<<5, 0, 0, 0, 0>>, <<0, 1, 0, 0, 0>>) /\ ~NLt(<<0, 1, 0, 0, 0>>, <<5, 0, 0, 0, 0>>)
ASSUME NDec(<<0, 0, 1, 0, 0>>) = <<65535, 65535, 0, 0, 0>>
=============================================================================
