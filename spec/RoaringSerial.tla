--------------------------- MODULE RoaringSerial ---------------------------
(* Field-level model of the two byte formats.                                                        *)
(*                                                                                                   *)
(* Portable (RoaringFormatSpec): cookie; chunk count; run-flag bits; descriptive header (key,        *)
(* cardinality-1) per chunk; offset header (present iff no-run cookie or >= 4 chunks); payloads:     *)
(* array (2 bytes/value) when cardinality <= 4096 and not flagged run, bitmap (8192 bytes) when      *)
(* cardinality > 4096 and not flagged run, run (2 + 4 bytes/run) when flagged.                       *)
(* Frozen (CRoaring): bitmap arena, run arena, array arena, keys, counts, typecodes, 4-byte header   *)
(* (15-bit cookie 13766 + 17-bit chunk count); counts = cardinality-1 for bitmap/array chunks and    *)
(* number of runs for run chunks; typecodes 1 bitmap / 2 array / 3 run.                              *)
(*                                                                                                   *)
(* The harness's independent parser turns real bytes into the records judged here (f); the decoded   *)
(* elements travel separately as a listing of atoms and are compared with the content.               *)
EXTENDS Integers, Sequences, FiniteSets, Nums

CookieNoRun == 12346
CookieRun == 12347
FrozenCookie == 13766
NoOffsetThreshold == 4

HeaderLen(f) ==
  IF f.cookie = CookieNoRun THEN 8 + 8 * f.n
  ELSE 4 + ((f.n + 7) \div 8) + 4 * f.n + (IF f.n >= NoOffsetThreshold THEN 4 * f.n ELSE 0)

PayloadLen(ch) == CASE ch.t = 0 -> 2 * ch.card [] ch.t = 1 -> 8192 [] ch.t = 2 -> 2 + 4 * ch.nr

Increasing(ch) == \A i \in 1..(Len(ch) - 1) : ch[i].k < ch[i + 1].k

\* Clauses of format legality that a parsed stream violates (empty set = legal).
PortableViolations(f) ==
  {cl \in {"parse", "cookie", "offset-header-presence", "chunk-count", "keys", "payload-order", "cardinality-field",
           "run-under-norun-cookie", "offsets", "layout", "empty-chunk"} :
     CASE cl = "parse" -> ~f.ok
       [] cl = "cookie" -> f.ok /\ f.cookie \notin {CookieNoRun, CookieRun}
       [] cl = "offset-header-presence" -> f.ok /\ f.hasoff # (f.cookie = CookieNoRun \/ f.n >= NoOffsetThreshold)
       [] cl = "chunk-count" -> f.ok /\ f.trunc = 0 /\ Len(f.ch) # f.n
       [] cl = "keys" -> f.ok /\ ~Increasing(f.ch)
       [] cl = "payload-order" -> f.ok /\ \E i \in DOMAIN f.ch : ~f.ch[i].v
       [] cl = "cardinality-field" -> f.ok /\ \E i \in DOMAIN f.ch : f.ch[i].n # f.ch[i].card
       [] cl = "empty-chunk" -> f.ok /\ \E i \in DOMAIN f.ch : f.ch[i].card < 1
       [] cl = "run-under-norun-cookie" -> f.ok /\ f.cookie = CookieNoRun /\ \E i \in DOMAIN f.ch : f.ch[i].t = 2
       [] cl = "offsets" -> f.ok /\ f.hasoff /\ \E i \in DOMAIN f.ch : f.ch[i].off # f.ch[i].pos
       [] cl = "layout" -> f.ok /\ f.trunc = 0 /\
             \/ (f.n > 0 /\ f.ch[1].pos # HeaderLen(f))
             \/ (f.n = 0 /\ f.end # HeaderLen(f))
             \/ \E i \in 1..(Len(f.ch) - 1) : f.ch[i + 1].pos # f.ch[i].pos + PayloadLen(f.ch[i])
             \/ (f.n > 0 /\ f.end # f.ch[Len(f.ch)].pos + PayloadLen(f.ch[Len(f.ch)]))}

\* This library's encoder: the payload kind is the in-memory kind of the chunk, and the run-capable
\* cookie is used exactly when some chunk is a run chunk.
WriterViolations(f, kinds) ==
  {cl \in {"payload-kind", "cookie-choice"} :
     CASE cl = "payload-kind" -> f.ok /\ \E i \in DOMAIN f.ch : i \in DOMAIN kinds /\ f.trunc = 0 /\ f.ch[i].t # kinds[i]
       [] cl = "cookie-choice" -> f.ok /\ f.trunc = 0 /\ (f.cookie = CookieRun) # (\E i \in DOMAIN kinds : kinds[i] = 2)}

\* Byte accounting of one serialization (C05): o = [f, len, gsz, retn, err, same]
AccountingViolations(o) ==
  {cl \in {"write-error", "size-mismatch", "returned-count", "writers-differ", "end-of-stream"} :
     CASE cl = "write-error" -> o.err
       [] cl = "size-mismatch" -> ~o.err /\ ~NEq(o.len, o.gsz)
       [] cl = "returned-count" -> ~o.err /\ ~NEq(o.len, o.retn)
       [] cl = "writers-differ" -> ~o.err /\ ~o.same
       [] cl = "end-of-stream" -> ~o.err /\ o.f.ok /\ ~NEq(NOfInt(o.f.end), o.len) /\ o.f.end < 1000000000}

\* Frozen layout (C13): r = [f, agree, tail, small, gsz, n1, n2, n3, err, kinds]
FrozenKindOf(t) == CASE t = 1 -> 1 [] t = 2 -> 0 [] t = 3 -> 2 [] OTHER -> 9
FrozenViolations(r) ==
  {cl \in {"frozen-error", "frozen-parse", "frozen-cookie", "frozen-count", "frozen-keys", "frozen-counts-field",
           "frozen-payload-order", "frozen-typecode", "frozen-writers-differ", "frozen-sizes", "frozen-overrun",
           "frozen-small-buffer"} :
     CASE cl = "frozen-error" -> r.err
       [] cl = "frozen-parse" -> ~r.err /\ ~r.f.ok
       [] cl = "frozen-cookie" -> ~r.err /\ r.f.cookie # FrozenCookie
       [] cl = "frozen-count" -> ~r.err /\ r.f.ok /\ r.f.trunc = 0 /\ Len(r.f.ch) # r.f.n
       [] cl = "frozen-keys" -> ~r.err /\ r.f.ok /\ ~Increasing(r.f.ch)
       [] cl = "frozen-counts-field" -> ~r.err /\ r.f.ok /\ \E i \in DOMAIN r.f.ch :
                                          r.f.ch[i].t \in {1, 2} /\ r.f.ch[i].count + 1 # r.f.ch[i].n
       [] cl = "frozen-payload-order" -> ~r.err /\ r.f.ok /\ \E i \in DOMAIN r.f.ch : ~r.f.ch[i].v
       [] cl = "frozen-typecode" -> ~r.err /\ r.f.ok /\ r.f.trunc = 0 /\ \E i \in DOMAIN r.f.ch :
                                          i \in DOMAIN r.kinds /\ FrozenKindOf(r.f.ch[i].t) # r.kinds[i]
       [] cl = "frozen-writers-differ" -> ~r.err /\ ~r.agree
       [] cl = "frozen-sizes" -> ~r.err /\ ~(NEq(r.n1, r.gsz) /\ NEq(r.n2, r.gsz) /\ NEq(r.n3, r.gsz))
       [] cl = "frozen-overrun" -> ~r.err /\ ~r.tail
       [] cl = "frozen-small-buffer" -> ~r.small}

\* Reading back (C05): r = [err, n, len, pos, entry, reuse]
LoadViolations(r) ==
  {cl \in {"read-error", "bytes-consumed", "reader-position"} :
     CASE cl = "read-error" -> r.err
       [] cl = "bytes-consumed" -> ~r.err /\ ~NEq(r.n, r.len)
       [] cl = "reader-position" -> ~r.err /\ ~r.pos}
=============================================================================
