--------------------------- MODULE MCTraceParAgg ---------------------------
EXTENDS TraceParAgg
I0 == <<>>
I2m == <<"multi", "multi">>
I3 == <<"multi", "single", "multi">>
I4m == <<"multi", "multi", "multi", "multi">>
I5 == <<"single", "single", "multi", "single", "multi">>
=============================================================================
