------------------------------- MODULE MCBSI -------------------------------
(* Bounded model of BSI.tla: TLC (a) checks that every update keeps the abstract map well-typed and  *)
(* that queries are pure, and (b) generates the calls that the Go harness replays on BOTH real       *)
(* implementations under a catalogue of column / value concretisations (S->C).                       *)
(* Mode "step": every state of slot 1 (each of NC columns absent or holding a value of Vals), slot 2 *)
(*              one of a few fixed maps; one call.   Mode "hist": random histories (-simulate).      *)
EXTENDS BSI, TLC, Json, SequencesExt

CONSTANTS Mode, Depth, NC, VNeg, VMax     \* values range over -VNeg..VMax (a .cfg file cannot write a negative literal)
VMin == 0 - VNeg

Cols == 1..NC
Vals == VMin..VMax
VARIABLES b, hist
vars == <<b, hist>>

Maps == {[ex |-> E, v |-> f] : E \in SUBSET Cols, f \in [Cols -> Vals \cup {0}]}
Canon(ix) == [ex |-> ix.ex, v |-> [c \in Cols |-> IF c \in ix.ex THEN ix.v[c] ELSE 0]]
States == {m \in Maps : m = Canon(m)}

Seq2(S) == SetToSeq(S)
SetCalls(m) == {[op |-> "BSetValue", x |-> 1, col |-> c, val |-> v, all |-> FALSE] : c \in Cols, v \in Vals}
               \cup {[op |-> "BSetMany", x |-> 1, cols |-> Seq2(F), val |-> v, all |-> FALSE] : F \in SUBSET Cols, v \in Vals}
               \cup {[op |-> o, x |-> 1, cols |-> Seq2(F), all |-> FALSE] : o \in {"BClear", "BRetain"}, F \in SUBSET Cols}
CopyCalls == {[op |-> o, x |-> 1, dst |-> 3, all |-> FALSE] : o \in {"BClone", "BMarshalRT", "BStreamRT"}}
             \cup {[op |-> "BRetainSet", x |-> 1, dst |-> 3, cols |-> Seq2(F), all |-> FALSE] : F \in SUBSET Cols}
MergeCalls(bb) ==
  (IF bb[1].ex \cap bb[2].ex = {} THEN {[op |-> "BParOr", x |-> 1, ys |-> <<2>>, par |-> p, all |-> FALSE] : p \in {0, 1, 2}} ELSE {})
  \cup (IF \A c \in Cols : bb[1].v[c] >= 0 /\ bb[2].v[c] >= 0 THEN {[op |-> "BAdd", x |-> 1, y |-> 2, all |-> FALSE]} ELSE {})
FoundSets(m) == {[all |-> TRUE, cols |-> <<>>]} \cup {[all |-> FALSE, cols |-> Seq2(F)] : F \in SUBSET m.ex}
CmpOps == {"LT", "LE", "EQ", "GE", "GT", "RANGE"}
InRange(m, v) == m.ex # {} /\ v >= MinOf(m, m.ex) /\ v <= MaxOf(m, m.ex)
QueryCalls(bb) ==
  LET m == bb[1] IN
  {[op |-> "BCompare", x |-> 1, cmp |-> o, lo |-> lo, hi |-> hi, all |-> fs.all, cols |-> fs.cols, par |-> 2, own |-> FALSE] :
      o \in CmpOps, lo \in {v \in Vals : InRange(m, v)}, hi \in {v \in Vals : InRange(m, v)}, fs \in FoundSets(m)}
  \cup {[op |-> "BCompareBSI", x |-> 1, y |-> 2, cmp |-> o, all |-> fs.all, cols |-> fs.cols] : o \in CmpOps \ {"RANGE"}, fs \in FoundSets(m)}
  \cup {[op |-> "BBatchEqual", x |-> 1, vals |-> Seq2(S), par |-> 2, all |-> TRUE] : S \in SUBSET Vals}
  \cup {[op |-> "BMinMax", x |-> 1, cmp |-> o, all |-> fs.all, cols |-> fs.cols, par |-> 2] :
          o \in {"MIN", "MAX"}, fs \in {f \in FoundSets(m) : (f.all /\ m.ex # {}) \/ (~f.all /\ f.cols # <<>>)}}
  \cup {[op |-> "BSum", x |-> 1, all |-> fs.all, cols |-> fs.cols] : fs \in FoundSets(m)}
  \cup (IF \A c \in Cols : m.v[c] >= 0
        THEN {[op |-> o, x |-> 1, all |-> fs.all, cols |-> fs.cols, par |-> 2] : o \in {"BTranspose", "BTransposeCounts"}, fs \in FoundSets(m)}
        ELSE {})

Calls(bb) == SetCalls(bb[1]) \cup CopyCalls \cup MergeCalls(bb) \cup QueryCalls(bb)

Second == {Canon([ex |-> {}, v |-> [c \in Cols |-> 0]]),
           Canon([ex |-> {NC}, v |-> [c \in Cols |-> IF c = NC THEN VMax ELSE 0]]),
           Canon([ex |-> {1, NC}, v |-> [c \in Cols |-> IF c = 1 THEN VMin ELSE IF c = NC THEN 1 ELSE 0]])}

Init ==
  /\ hist = <<>>
  /\ IF Mode = "step"
     THEN \E m \in States, s \in Second : b = [i \in BSlots |-> IF i = 1 THEN m ELSE IF i = 2 THEN s ELSE EmptyIdx(Cols)]
     ELSE b = [i \in BSlots |-> EmptyIdx(Cols)]

Next ==
  \/ /\ Len(hist) < Depth
     /\ \E k \in Calls(b) : b' = BEffect(Cols, b, k) /\ hist' = Append(hist, k)
  \/ /\ Mode = "hist" /\ Len(hist) = Depth
     /\ PrintT(ToJson([calls |-> hist]))
     /\ hist' = Append(hist, [op |-> "End", all |-> FALSE]) /\ b' = b

Spec == Init /\ [][Next]_vars

\* scripts of the one-step mode: how to build the state (SetValue calls), then the call
BuildOf(s, m) == [i \in 1..Cardinality(m.ex) |->
                    LET c == SetToSeq(m.ex)[i] IN [op |-> "BSetValue", x |-> s, col |-> c, val |-> m.v[c], all |-> FALSE]]
EmitStep == Mode = "hist" \/ PrintT(ToJson([calls |-> BuildOf(1, b[1]) \o BuildOf(2, b[2]) \o hist']))

TypeOK == \A s \in BSlots : b[s].ex \subseteq Cols /\ \A c \in Cols : (c \notin b[s].ex => b[s].v[c] = 0)
QueriesPure == [][hist'[Len(hist')].op \in {"BCompare", "BCompareBSI", "BBatchEqual", "BMinMax", "BSum", "BTranspose", "BTransposeCounts"} => b' = b]_vars
=============================================================================
