------------------------------- MODULE ParAgg -------------------------------
(* The goroutine pipelines of parallel.go, transcribed step by step (one label per channel          *)
(* operation), with the code's channel capacities scaled and -- for ParOr -- the code's fixed-width *)
(* key arithmetic kept (keys are KBITS-bit unsigned: start := (lKey + i*chunkSize) mod 2^KBITS).    *)
(*                                                                                                   *)
(* Pipeline = "ParOr":   feeder -> specChan -> workers -> chunkChan -> main (collector)             *)
(* Pipeline = "Heap":    main (feeder) -> inputChan -> workers -> resultChan -> appender -> main    *)
(*                       (ParHeapOr and ParAnd share it; in ParHeapOr main also sends single-source *)
(*                       items straight to resultChan)                                               *)
(*                                                                                                   *)
(* Checked by TLC: no deadlock, termination (all goroutines finish: nothing is left behind), no     *)
(* send on a closed channel, and PartitionExact: the key ranges handed to workers are pairwise      *)
(* disjoint and cover exactly [LK, HK], so the assembled result has strictly increasing keys, each  *)
(* once.  FixedWidth = TRUE reproduces the arithmetic of the pinned code (uint16 conversion of the  *)
(* spec start), FixedWidth = FALSE the repaired arithmetic (a spec whose start exceeds hKey is      *)
(* empty).                                                                                           *)
EXTENDS Integers, Sequences, FiniteSets, TLC

CONSTANTS Pipeline,    \* "ParOr" | "Heap"
          NW,          \* number of worker goroutines
          KBITS,       \* key width in bits (16 in the code; 4 in the model)
          LK, HK,      \* lowest / highest chunk key over all inputs (ParOr)
          FixedWidth,  \* TRUE: spec.start wraps modulo 2^KBITS like uint16(...) does
          CapA, CapB,  \* channel capacities (chunkSpecChan / inputChan, chunkChan / resultChan)
          Items        \* Heap: sequence over {"multi", "single"}: what the heap yields per key

KMOD == 2 ^ KBITS
Min(a, b) == IF a < b THEN a ELSE b
CeilDiv(a, b) == (a + b - 1) \div b

\* the arithmetic of ParOr as operators of (lk, hk, nw), so that TLC can also sweep all parameters
KeyRangeOf(lk, hk) == hk - lk + 1
ChunkSizeOf(lk, hk, nw) == IF nw * 4 > KeyRangeOf(lk, hk) THEN 1 ELSE CeilDiv(KeyRangeOf(lk, hk), nw * 4)
ChunkCountOf(lk, hk, nw) == IF nw * 4 > KeyRangeOf(lk, hk) THEN KeyRangeOf(lk, hk) ELSE nw * 4
SpecStartOf(lk, hk, nw, fw, i) == IF fw THEN (lk + i * ChunkSizeOf(lk, hk, nw)) % KMOD ELSE lk + i * ChunkSizeOf(lk, hk, nw)
SpecEndOf(lk, hk, nw, i) == Min(lk + (i + 1) * ChunkSizeOf(lk, hk, nw) - 1, hk)
\* keys a worker ORs for spec i: every key k with start <= k <= end (empty when start > end)
SpecKeysOf(lk, hk, nw, fw, i) == {k \in 0..(KMOD - 1) : SpecStartOf(lk, hk, nw, fw, i) <= k /\ k <= SpecEndOf(lk, hk, nw, i)}

\* the work items partition [lk, hk], in index order
PartitionExactFor(lk, hk, nw, fw) ==
  LET cc == ChunkCountOf(lk, hk, nw)
      K(i) == SpecKeysOf(lk, hk, nw, fw, i)
  IN /\ \A i, j \in 0..(cc - 1) : i # j => K(i) \cap K(j) = {}
     /\ UNION {K(i) : i \in 0..(cc - 1)} = lk..hk
     /\ \A i, j \in 0..(cc - 1) : i < j => \A a \in K(i), b \in K(j) : a < b

\* all parameter triples (key range >= 2, as in the code path that reaches the pipeline) that break it
BadPartitions(fw, maxw) == {p \in (0..(KMOD - 1)) \X (0..(KMOD - 1)) \X (1..maxw) :
                              p[1] < p[2] /\ ~PartitionExactFor(p[1], p[2], p[3], fw)}

ChunkCount == ChunkCountOf(LK, HK, NW)

NItems == IF Pipeline = "ParOr" THEN ChunkCount ELSE Len(Items)
Workers == 1..NW

(* --algorithm ParAgg {
  variables chanA = <<>>,           \* chunkSpecChan / inputChan
            chanB = <<>>,           \* chunkChan / resultChan
            closedA = FALSE, closedB = FALSE,
            expChan = <<>>,         \* expectedKeysChan (unbuffered: modelled as a rendezvous slot)
            bitmapChan = <<>>,      \* unbuffered
            sendOnClosed = FALSE,
            got = [i \in 0..(NItems - 1) |-> FALSE],   \* main/appender: result i stored
            dup = FALSE,                               \* a result index arrived twice
            returned = FALSE;

  macro Send(ch, closed, cap, v) {
    await closed \/ Len(ch) < cap;
    if (closed) { sendOnClosed := TRUE } else { ch := Append(ch, v) }
  }

  fair process (feeder = 100)
    variable fi = 0;
  {
  f0: if (Pipeline = "ParOr") {
  f1:   while (fi < ChunkCount) {
          Send(chanA, closedA, CapA, fi);
          fi := fi + 1;
        }
      }
  }

  fair process (worker \in Workers)
    variable item = -1;
  {
  w0: while (TRUE) {
        await chanA # <<>> \/ closedA;
        if (chanA # <<>>) {
          item := Head(chanA);
          chanA := Tail(chanA);
  w1:     Send(chanB, closedB, CapB, item);
        } else {
          goto wdone;
        }
      };
  wdone: skip;
  }

  fair process (appender = 101)
    variables expected = -1, appended = 0;
  {
  a0: if (Pipeline = "Heap") {
  a1:   while (appended # expected) {
          either {
            await chanB # <<>>;
            if (got[Head(chanB)]) { dup := TRUE };
            got[Head(chanB)] := TRUE;
            chanB := Tail(chanB);
            appended := appended + 1;
          } or {
            await expChan # <<>>;
            expected := Head(expChan);
            expChan := Tail(expChan);
          }
        };
  a2:   bitmapChan := <<"bitmap">>;
      }
  }

  fair process (main = 102)
    variables mi = 0, remaining = NItems;
  {
  m0: if (Pipeline = "ParOr") {
  m1:   while (remaining > 0) {
          await chanB # <<>>;
          if (got[Head(chanB)]) { dup := TRUE };
          got[Head(chanB)] := TRUE;
          chanB := Tail(chanB);
          remaining := remaining - 1;
        };
  m2:   closedB := TRUE;
  m3:   closedA := TRUE;
      } else {
  h1:   while (mi < NItems) {
          if (Items[mi + 1] = "single") {
            Send(chanB, closedB, CapB, mi);
          } else {
            Send(chanA, closedA, CapA, mi);
          };
          mi := mi + 1;
        };
  h2:   await expChan = <<>>;          \* unbuffered send: hand over ...
        expChan := <<NItems>>;
  h3:   await expChan = <<>>;          \* ... and wait until the appender took it
  h4:   await bitmapChan # <<>>;
        bitmapChan := <<>>;
  h5:   closedA := TRUE;
  h6:   closedB := TRUE;
      };
  ret: returned := TRUE;
  }
} *)
\* BEGIN TRANSLATION
VARIABLES pc, chanA, chanB, closedA, closedB, expChan, bitmapChan, 
          sendOnClosed, got, dup, returned, fi, item, expected, appended, mi, 
          remaining

vars == << pc, chanA, chanB, closedA, closedB, expChan, bitmapChan, 
           sendOnClosed, got, dup, returned, fi, item, expected, appended, mi, 
           remaining >>

ProcSet == {100} \cup (Workers) \cup {101} \cup {102}

Init == (* Global variables *)
        /\ chanA = <<>>
        /\ chanB = <<>>
        /\ closedA = FALSE
        /\ closedB = FALSE
        /\ expChan = <<>>
        /\ bitmapChan = <<>>
        /\ sendOnClosed = FALSE
        /\ got = [i \in 0..(NItems - 1) |-> FALSE]
        /\ dup = FALSE
        /\ returned = FALSE
        (* Process feeder *)
        /\ fi = 0
        (* Process worker *)
        /\ item = [self \in Workers |-> -1]
        (* Process appender *)
        /\ expected = -1
        /\ appended = 0
        (* Process main *)
        /\ mi = 0
        /\ remaining = NItems
        /\ pc = [self \in ProcSet |-> CASE self = 100 -> "f0"
                                        [] self \in Workers -> "w0"
                                        [] self = 101 -> "a0"
                                        [] self = 102 -> "m0"]

f0 == /\ pc[100] = "f0"
      /\ IF Pipeline = "ParOr"
            THEN /\ pc' = [pc EXCEPT ![100] = "f1"]
            ELSE /\ pc' = [pc EXCEPT ![100] = "Done"]
      /\ UNCHANGED << chanA, chanB, closedA, closedB, expChan, bitmapChan, 
                      sendOnClosed, got, dup, returned, fi, item, expected, 
                      appended, mi, remaining >>

f1 == /\ pc[100] = "f1"
      /\ IF fi < ChunkCount
            THEN /\ closedA \/ Len(chanA) < CapA
                 /\ IF closedA
                       THEN /\ sendOnClosed' = TRUE
                            /\ chanA' = chanA
                       ELSE /\ chanA' = Append(chanA, fi)
                            /\ UNCHANGED sendOnClosed
                 /\ fi' = fi + 1
                 /\ pc' = [pc EXCEPT ![100] = "f1"]
            ELSE /\ pc' = [pc EXCEPT ![100] = "Done"]
                 /\ UNCHANGED << chanA, sendOnClosed, fi >>
      /\ UNCHANGED << chanB, closedA, closedB, expChan, bitmapChan, got, dup, 
                      returned, item, expected, appended, mi, remaining >>

feeder == f0 \/ f1

w0(self) == /\ pc[self] = "w0"
            /\ chanA # <<>> \/ closedA
            /\ IF chanA # <<>>
                  THEN /\ item' = [item EXCEPT ![self] = Head(chanA)]
                       /\ chanA' = Tail(chanA)
                       /\ pc' = [pc EXCEPT ![self] = "w1"]
                  ELSE /\ pc' = [pc EXCEPT ![self] = "wdone"]
                       /\ UNCHANGED << chanA, item >>
            /\ UNCHANGED << chanB, closedA, closedB, expChan, bitmapChan, 
                            sendOnClosed, got, dup, returned, fi, expected, 
                            appended, mi, remaining >>

w1(self) == /\ pc[self] = "w1"
            /\ closedB \/ Len(chanB) < CapB
            /\ IF closedB
                  THEN /\ sendOnClosed' = TRUE
                       /\ chanB' = chanB
                  ELSE /\ chanB' = Append(chanB, item[self])
                       /\ UNCHANGED sendOnClosed
            /\ pc' = [pc EXCEPT ![self] = "w0"]
            /\ UNCHANGED << chanA, closedA, closedB, expChan, bitmapChan, got, 
                            dup, returned, fi, item, expected, appended, mi, 
                            remaining >>

wdone(self) == /\ pc[self] = "wdone"
               /\ TRUE
               /\ pc' = [pc EXCEPT ![self] = "Done"]
               /\ UNCHANGED << chanA, chanB, closedA, closedB, expChan, 
                               bitmapChan, sendOnClosed, got, dup, returned, 
                               fi, item, expected, appended, mi, remaining >>

worker(self) == w0(self) \/ w1(self) \/ wdone(self)

a0 == /\ pc[101] = "a0"
      /\ IF Pipeline = "Heap"
            THEN /\ pc' = [pc EXCEPT ![101] = "a1"]
            ELSE /\ pc' = [pc EXCEPT ![101] = "Done"]
      /\ UNCHANGED << chanA, chanB, closedA, closedB, expChan, bitmapChan, 
                      sendOnClosed, got, dup, returned, fi, item, expected, 
                      appended, mi, remaining >>

a1 == /\ pc[101] = "a1"
      /\ IF appended # expected
            THEN /\ \/ /\ chanB # <<>>
                       /\ IF got[Head(chanB)]
                             THEN /\ dup' = TRUE
                             ELSE /\ TRUE
                                  /\ dup' = dup
                       /\ got' = [got EXCEPT ![Head(chanB)] = TRUE]
                       /\ chanB' = Tail(chanB)
                       /\ appended' = appended + 1
                       /\ UNCHANGED <<expChan, expected>>
                    \/ /\ expChan # <<>>
                       /\ expected' = Head(expChan)
                       /\ expChan' = Tail(expChan)
                       /\ UNCHANGED <<chanB, got, dup, appended>>
                 /\ pc' = [pc EXCEPT ![101] = "a1"]
            ELSE /\ pc' = [pc EXCEPT ![101] = "a2"]
                 /\ UNCHANGED << chanB, expChan, got, dup, expected, appended >>
      /\ UNCHANGED << chanA, closedA, closedB, bitmapChan, sendOnClosed, 
                      returned, fi, item, mi, remaining >>

a2 == /\ pc[101] = "a2"
      /\ bitmapChan' = <<"bitmap">>
      /\ pc' = [pc EXCEPT ![101] = "Done"]
      /\ UNCHANGED << chanA, chanB, closedA, closedB, expChan, sendOnClosed, 
                      got, dup, returned, fi, item, expected, appended, mi, 
                      remaining >>

appender == a0 \/ a1 \/ a2

m0 == /\ pc[102] = "m0"
      /\ IF Pipeline = "ParOr"
            THEN /\ pc' = [pc EXCEPT ![102] = "m1"]
            ELSE /\ pc' = [pc EXCEPT ![102] = "h1"]
      /\ UNCHANGED << chanA, chanB, closedA, closedB, expChan, bitmapChan, 
                      sendOnClosed, got, dup, returned, fi, item, expected, 
                      appended, mi, remaining >>

m1 == /\ pc[102] = "m1"
      /\ IF remaining > 0
            THEN /\ chanB # <<>>
                 /\ IF got[Head(chanB)]
                       THEN /\ dup' = TRUE
                       ELSE /\ TRUE
                            /\ dup' = dup
                 /\ got' = [got EXCEPT ![Head(chanB)] = TRUE]
                 /\ chanB' = Tail(chanB)
                 /\ remaining' = remaining - 1
                 /\ pc' = [pc EXCEPT ![102] = "m1"]
            ELSE /\ pc' = [pc EXCEPT ![102] = "m2"]
                 /\ UNCHANGED << chanB, got, dup, remaining >>
      /\ UNCHANGED << chanA, closedA, closedB, expChan, bitmapChan, 
                      sendOnClosed, returned, fi, item, expected, appended, mi >>

m2 == /\ pc[102] = "m2"
      /\ closedB' = TRUE
      /\ pc' = [pc EXCEPT ![102] = "m3"]
      /\ UNCHANGED << chanA, chanB, closedA, expChan, bitmapChan, sendOnClosed, 
                      got, dup, returned, fi, item, expected, appended, mi, 
                      remaining >>

m3 == /\ pc[102] = "m3"
      /\ closedA' = TRUE
      /\ pc' = [pc EXCEPT ![102] = "ret"]
      /\ UNCHANGED << chanA, chanB, closedB, expChan, bitmapChan, sendOnClosed, 
                      got, dup, returned, fi, item, expected, appended, mi, 
                      remaining >>

h1 == /\ pc[102] = "h1"
      /\ IF mi < NItems
            THEN /\ IF Items[mi + 1] = "single"
                       THEN /\ closedB \/ Len(chanB) < CapB
                            /\ IF closedB
                                  THEN /\ sendOnClosed' = TRUE
                                       /\ chanB' = chanB
                                  ELSE /\ chanB' = Append(chanB, mi)
                                       /\ UNCHANGED sendOnClosed
                            /\ chanA' = chanA
                       ELSE /\ closedA \/ Len(chanA) < CapA
                            /\ IF closedA
                                  THEN /\ sendOnClosed' = TRUE
                                       /\ chanA' = chanA
                                  ELSE /\ chanA' = Append(chanA, mi)
                                       /\ UNCHANGED sendOnClosed
                            /\ chanB' = chanB
                 /\ mi' = mi + 1
                 /\ pc' = [pc EXCEPT ![102] = "h1"]
            ELSE /\ pc' = [pc EXCEPT ![102] = "h2"]
                 /\ UNCHANGED << chanA, chanB, sendOnClosed, mi >>
      /\ UNCHANGED << closedA, closedB, expChan, bitmapChan, got, dup, 
                      returned, fi, item, expected, appended, remaining >>

h2 == /\ pc[102] = "h2"
      /\ expChan = <<>>
      /\ expChan' = <<NItems>>
      /\ pc' = [pc EXCEPT ![102] = "h3"]
      /\ UNCHANGED << chanA, chanB, closedA, closedB, bitmapChan, sendOnClosed, 
                      got, dup, returned, fi, item, expected, appended, mi, 
                      remaining >>

h3 == /\ pc[102] = "h3"
      /\ expChan = <<>>
      /\ pc' = [pc EXCEPT ![102] = "h4"]
      /\ UNCHANGED << chanA, chanB, closedA, closedB, expChan, bitmapChan, 
                      sendOnClosed, got, dup, returned, fi, item, expected, 
                      appended, mi, remaining >>

h4 == /\ pc[102] = "h4"
      /\ bitmapChan # <<>>
      /\ bitmapChan' = <<>>
      /\ pc' = [pc EXCEPT ![102] = "h5"]
      /\ UNCHANGED << chanA, chanB, closedA, closedB, expChan, sendOnClosed, 
                      got, dup, returned, fi, item, expected, appended, mi, 
                      remaining >>

h5 == /\ pc[102] = "h5"
      /\ closedA' = TRUE
      /\ pc' = [pc EXCEPT ![102] = "h6"]
      /\ UNCHANGED << chanA, chanB, closedB, expChan, bitmapChan, sendOnClosed, 
                      got, dup, returned, fi, item, expected, appended, mi, 
                      remaining >>

h6 == /\ pc[102] = "h6"
      /\ closedB' = TRUE
      /\ pc' = [pc EXCEPT ![102] = "ret"]
      /\ UNCHANGED << chanA, chanB, closedA, expChan, bitmapChan, sendOnClosed, 
                      got, dup, returned, fi, item, expected, appended, mi, 
                      remaining >>

ret == /\ pc[102] = "ret"
       /\ returned' = TRUE
       /\ pc' = [pc EXCEPT ![102] = "Done"]
       /\ UNCHANGED << chanA, chanB, closedA, closedB, expChan, bitmapChan, 
                       sendOnClosed, got, dup, fi, item, expected, appended, 
                       mi, remaining >>

main == m0 \/ m1 \/ m2 \/ m3 \/ h1 \/ h2 \/ h3 \/ h4 \/ h5 \/ h6 \/ ret

(* Allow infinite stuttering to prevent deadlock on termination. *)
Terminating == /\ \A self \in ProcSet: pc[self] = "Done"
               /\ UNCHANGED vars

Next == feeder \/ appender \/ main
           \/ (\E self \in Workers: worker(self))
           \/ Terminating

Spec == /\ Init /\ [][Next]_vars
        /\ WF_vars(feeder)
        /\ \A self \in Workers : WF_vars(worker(self))
        /\ WF_vars(appender)
        /\ WF_vars(main)

Termination == <>(\A self \in ProcSet: pc[self] = "Done")

\* END TRANSLATION

-----------------------------------------------------------------------------
NoSendOnClosed == ~sendOnClosed
NoDuplicateResult == ~dup

AllDone == \A p \in {100, 101, 102} \cup Workers : pc[p] = "Done"
\* when the function returns, every goroutine it started has finished or is about to (its next step
\* is unconditional): nothing stays parked on a channel forever -- the liveness half is Termination
NoLeak == <>[]AllDone

\* every index arrives exactly once before main returns
AllCollected == returned => \A i \in 0..(NItems - 1) : got[i]

PartitionExact == Pipeline = "ParOr" => PartitionExactFor(LK, HK, NW, FixedWidth)
=============================================================================
