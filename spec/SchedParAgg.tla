---------------------------- MODULE SchedParAgg ----------------------------
(* The state graph of ParAgg.tla as a schedule plan for the real goroutines (C12, S->C).             *)
(*                                                                                                   *)
(* The verif gate hooks of parallel.go park every goroutine of a Par* call immediately before each   *)
(* channel operation (send, receive / select, close) and at goroutine exit; the walker in            *)
(* harness/parwalk.go releases ONE parked goroutine per model step, so the real call is driven along *)
(* a path of this graph, edge by edge.  For every state, GateOf says where each goroutine must be    *)
(* parked; for every edge, Obs says what a receive must have delivered.  The walker checks both on   *)
(* the real goroutines after every step: an edge of the model the code cannot take, a goroutine      *)
(* parked somewhere else, or a different item received, is a deviation between code and model.      *)
(*                                                                                                   *)
(* TLC prints one JSON line per edge (ACTION_CONSTRAINT EmitEdge, breadth-first, exhaustive); the     *)
(* runner assembles the graph, the walker covers its edges (least-visited first).                    *)
EXTENDS ParAgg, Json

G(site, id) == [site |-> site, id |-> id]
None == G("none", 0)     \* no goroutine, or goroutine inside a channel operation / gone

GateOf(p) ==
  CASE p = 100 ->
         IF Pipeline # "ParOr" THEN None
         ELSE IF pc[100] \in {"f0", "f1"} THEN (IF fi < ChunkCount THEN G("feeder.send", fi) ELSE G("feeder.exit", 0))
         ELSE None
    [] p \in Workers ->
         CASE pc[p] = "w0" -> G("worker.wait", 0)          \* before the receive (first time: goroutine start)
           [] pc[p] = "w1" -> G("worker.send", item[p])
           [] pc[p] = "wdone" -> G("worker.exit", 0)
           [] OTHER -> None
    [] p = 101 ->
         IF Pipeline # "Heap" THEN None
         ELSE CASE pc[101] \in {"a0", "a1"} -> (IF appended # expected THEN G("appender.select", 0) ELSE G("appender.sendBitmap", 0))
                [] pc[101] = "a2" -> G("appender.sendBitmap", 0)
                [] OTHER -> None
    [] p = 102 ->
         IF Pipeline = "ParOr"
         THEN CASE pc[102] \in {"m0", "m1"} -> (IF remaining > 0 THEN G("main.wait", 0) ELSE G("main.closeChunk", 0))
                [] pc[102] = "m2" -> G("main.closeChunk", 0)
                [] pc[102] = "m3" -> G("main.closeSpec", 0)
                [] OTHER -> None
         ELSE CASE pc[102] \in {"m0", "h1"} ->
                     (IF mi < NItems THEN G(IF Items[mi + 1] = "single" THEN "main.sendResult" ELSE "main.sendInput", mi)
                      ELSE G("main.sendExpected", NItems))
                [] pc[102] = "h2" -> G("main.sendExpected", NItems)
                [] pc[102] = "h3" -> None                  \* inside the unbuffered send
                [] pc[102] = "h4" -> G("main.waitBitmap", 0)
                [] pc[102] = "h5" -> G("main.closeInput", 0)
                [] pc[102] = "h6" -> G("main.closeResult", 0)
                [] OTHER -> None

\* which process takes the step (evaluated on a pair of states)
Who == CASE feeder -> 100 [] appender -> 101 [] main -> 102 [] OTHER -> CHOOSE w \in Workers : worker(w)

\* steps of the model that are control flow only: the goroutine does not move
Silent(p) ==
  \/ p = 100 /\ pc[100] = "f0"
  \/ p = 101 /\ pc[101] = "a0"
  \/ p = 101 /\ pc[101] = "a1" /\ appended = expected
  \/ p = 102 /\ pc[102] \in {"m0", "ret"}
  \/ p = 102 /\ pc[102] = "m1" /\ remaining = 0
  \/ p = 102 /\ pc[102] = "h1" /\ mi = NItems

\* what the receive of this step delivers (reported by the gate AFTER the receive)
Obs(p) ==
  CASE p \in Workers /\ pc[p] = "w0" /\ chanA # <<>> -> G("worker.recv", Head(chanA))
    [] p = 102 /\ pc[102] = "m1" /\ remaining > 0 -> G("main.recv", Head(chanB))
    [] p = 102 /\ pc[102] = "h4" -> G("main.recvBitmap", 0)
    [] p = 101 /\ pc[101] = "a1" /\ appended # expected /\ appended' = appended + 1 -> G("appender.recvResult", Head(chanB))
    [] p = 101 /\ pc[101] = "a1" /\ appended # expected /\ appended' = appended -> G("appender.recvExpected", Head(expChan))
    [] OTHER -> None

Procs == <<100, 101, 102>> \o [i \in 1..NW |-> i]
Gates == [i \in DOMAIN Procs |-> GateOf(Procs[i])]

EmitEdge ==
  \/ vars' = vars
  \/ LET p == Who IN
     PrintT(ToJson([f |-> ToString(vars), t |-> ToString(vars'), p |-> p, silent |-> Silent(p), obs |-> Obs(p),
                    fg |-> Gates, tg |-> Gates', final |-> (\A q \in ProcSet : pc'[q] = "Done")]))

I0 == <<>>
I1 == <<"multi">>
I2 == <<"single", "multi">>
I2m == <<"multi", "multi">>
I3 == <<"multi", "single", "multi">>
I3m == <<"multi", "multi", "multi">>
I4m == <<"multi", "multi", "multi", "multi">>
I5 == <<"single", "single", "multi", "single", "multi">>
=============================================================================
