---------------------------- MODULE RoaringIter ----------------------------
(* Iteration protocols as state machines over atoms (C04, and the iterator clauses of C17).          *)
(*                                                                                                   *)
(* An iterator is [kind, rem, one]: `rem` is the set of atoms all of whose elements are still to be  *)
(* produced, `one` (0 = none) an atom of which only the LAST element is still to be produced (this   *)
(* arises from AdvanceIfNeeded to the last integer of a cell).  The harness drives the real iterator *)
(* in GROUPS (all remaining values of the next non-empty cell) so that each step has an atom-level   *)
(* meaning; within a group it checks PeekNext = following Next and, for ManyIterator, the buffer     *)
(* discipline (auxok), order (dir), membership (ins) and which atoms were covered (arr/partial).     *)
EXTENDS RoaringSet

NoIt == [kind |-> "none", rem |-> {}, one |-> 0]
ItIds == 1..3
ItOps == {"ItNew", "ItTake", "ItPeek", "ItAdvance"}

Forward(it) == it.kind # "rev"

ItCreate(U, c, k) ==
  [kind |-> k.rcp,
   rem |-> IF k.rcp = "unset" THEN AtomsIn(U, k.c0, k.c1) \ c[k.x] ELSE c[k.x],
   one |-> 0]

GroupCell(U, it) ==
  IF Forward(it) THEN CHOOSE cl \in {U.cell[a] : a \in it.rem} : \A a \in it.rem : cl <= U.cell[a]
  ELSE CHOOSE cl \in {U.cell[a] : a \in it.rem} : \A a \in it.rem : cl >= U.cell[a]
Group(U, it) == IF it.one # 0 \/ it.rem = {} THEN {} ELSE {a \in it.rem : U.cell[a] = GroupCell(U, it)}

AfterTake(U, it) == IF it.one # 0 THEN [it EXCEPT !.one = 0] ELSE [it EXCEPT !.rem = it.rem \ Group(U, it)]

AfterAdvance(U, it, c0, side) ==
  IF side = 0
  THEN [it EXCEPT !.rem = {a \in it.rem : U.cell[a] >= c0},
                  !.one = IF it.one # 0 /\ U.cell[it.one] >= c0 THEN it.one ELSE 0]
  ELSE LET la == LastAtom(U, c0) IN
       [it EXCEPT !.rem = {a \in it.rem : U.cell[a] > c0},
                  !.one = IF la \in it.rem THEN la
                          ELSE IF it.one # 0 /\ U.cell[it.one] >= c0 THEN it.one ELSE 0]

\* new iterator table after an iterator call
IterStep(U, c, its, k) ==
  CASE k.op = "ItNew" -> [its EXCEPT ![k.a] = ItCreate(U, c, k)]
    [] k.op = "ItTake" -> [its EXCEPT ![k.a] = AfterTake(U, its[k.a])]
    [] k.op = "ItAdvance" -> [its EXCEPT ![k.a] = AfterAdvance(U, its[k.a], k.c0, Side(k))]
    [] OTHER -> its

DirOK(U, g, fwd, dir) ==
  IF g = {} THEN dir = "none" ELSE IF NEq(W(U, g), NOne) THEN dir = "one" ELSE IF fwd THEN dir = "asc" ELSE dir = "desc"

\* set of violated clauses of one ItTake
TakeClauses(U, it, r) ==
  IF it.one # 0
  THEN {cl \in {"count", "membership", "peek-or-buffer", "value", "coverage", "hasnext"} :
          CASE cl = "count" -> ~NEq(r.n, NOne)
            [] cl = "membership" -> ~r.ins
            [] cl = "peek-or-buffer" -> ~r.auxok
            [] cl = "value" -> ~(r.first.a = it.one /\ r.first.l)
            [] cl = "coverage" -> IF NEq(U.w[it.one], NOne) THEN ToSet(r.arr) # {it.one} \/ r.partial # <<>>
                                  ELSE r.arr # <<>> \/ ToSet(r.partial) # {it.one}
            [] cl = "hasnext" -> r.hasnext # (it.rem # {})}
  ELSE LET g == Group(U, it) IN
       {cl \in {"count", "membership", "peek-or-buffer", "order", "first-value", "coverage", "hasnext"} :
          CASE cl = "count" -> r.n # W(U, g)
            [] cl = "membership" -> ~r.ins
            [] cl = "peek-or-buffer" -> ~r.auxok
            [] cl = "order" -> ~DirOK(U, g, Forward(it), r.dir)
            [] cl = "first-value" -> g # {} /\ ~LmMatches(IF Forward(it) THEN LmFirst(U, g) ELSE LmLast(U, g), r.first)
            [] cl = "coverage" -> ToSet(r.arr) # g \/ r.partial # <<>>
            [] cl = "hasnext" -> r.hasnext # (it.rem \ g # {})}

\* one-shot consumers: expected set of atoms produced
CbExpected(U, c, k) ==
  CASE k.rcp \in {"Iterate", "Values"} -> {a \in c[k.x] : U.cell[a] <= k.c0}
    [] k.rcp = "Backward" -> {a \in c[k.x] : U.cell[a] >= k.c0}
    [] k.rcp = "Unset" -> {a \in AtomsIn(U, k.c1, U.ncell + 1) \ c[k.x] : U.cell[a] <= k.c0}
CbClauses(U, c, k, r) ==
  LET g == CbExpected(U, c, k) IN
  {cl \in {"count", "membership", "called-after-stop", "order", "coverage"} :
     CASE cl = "count" -> r.n # W(U, g)
       [] cl = "membership" -> ~r.ins
       [] cl = "called-after-stop" -> ~r.auxok
       [] cl = "order" -> ~DirOK(U, g, k.rcp # "Backward", r.dir)
       [] cl = "coverage" -> ToSet(r.arr) # g \/ r.partial # <<>>}

\* Ranges(): r = [ok, ins, covered, below, nr, stop, arr]
RangesClauses(U, c, k, r) ==
  {cl \in {"not-maximal-disjoint-sorted", "outside-the-set", "skipped-elements", "incomplete"} :
     CASE cl = "not-maximal-disjoint-sorted" -> ~r.ok
       [] cl = "outside-the-set" -> ~r.ins
       [] cl = "skipped-elements" -> ~NEq(r.covered, r.below)
       [] cl = "incomplete" -> (r.stop = 0 \/ r.nr < r.stop) /\ (ToSet(r.arr) # c[k.x] \/ ~NEq(r.covered, W(U, c[k.x])))}

IterHasResult(k) == k.op \in {"ItTake", "ItPeek", "ItAdvance", "IterCb", "Ranges"}
IterClauses(U, c, its, k, r) ==
  CASE k.op = "ItTake" -> TakeClauses(U, its[k.a], r)
    [] k.op = "ItPeek" -> LET it == its[k.a]
                              exp == IF it.one # 0 THEN [a |-> it.one, pos |-> "l"] ELSE LmFirst(U, Group(U, it))
                          IN IF LmMatches(exp, r) THEN {} ELSE {"peek-value"}
    [] k.op = "ItAdvance" -> LET it2 == AfterAdvance(U, its[k.a], k.c0, Side(k))
                             IN IF r = (it2.rem # {} \/ it2.one # 0) THEN {} ELSE {"hasnext-after-advance"}
    [] k.op = "IterCb" -> CbClauses(U, c, k, r)
    [] k.op = "Ranges" -> RangesClauses(U, c, k, r)
    [] OTHER -> {}
=============================================================================
