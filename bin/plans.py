"""Per-property plans (what is modelled, generated, driven), attribution of recorded deviations to
properties, known-finding signatures, vacuity rules."""

ALG = {'And', 'Or', 'Xor', 'AndNot', 'AndS', 'OrS', 'XorS', 'AndNotS', 'AndCard', 'OrCard', 'Intersects'}
MUT = {'Add', 'AddInt', 'CheckedAdd', 'Remove', 'CheckedRemove', 'AddMany', 'AddRange', 'RemoveRange', 'Flip', 'Clear',
       'RunOptimize', 'SetCOW', 'Detach', 'Clone', 'New', 'Build', 'BitmapOf'}
QRY = {'Stats', 'String', 'Contains', 'IsEmpty', 'Card', 'Min', 'Max', 'Rank', 'Select', 'CardInRange', 'IntersectsInterval', 'Equals',
       'ToArray', 'ChecksumEq', 'ChecksumRT'}
NBR = {'NextValue', 'PreviousValue', 'NextAbsentValue', 'PreviousAbsentValue'}
AGG = {'FastOr', 'HeapOr', 'ParOr', 'ParHeapOr', 'FastAnd', 'ParAnd', 'HeapXor', 'AndAny'}
TRF = {'FlipS', 'AddOffset', 'DenseRT', 'BitSetRT'}


SER = {'Decode', 'MustRead', 'Adopt', 'Ser', 'Load', 'WriteFail', 'Freeze', 'FrozenRT', 'LoadLegal', 'DetachAll', 'Scribble', 'Ser64', 'Load64'}
C05_CLAUSES = {'write-error', 'size-mismatch', 'returned-count', 'writers-differ', 'end-of-stream', 'read-error', 'bytes-consumed',
               'reader-position', 'failed-writer-not-reported', 'returned-more-than-written'}
C06_CLAUSES = {'parse', 'cookie', 'offset-header-presence', 'chunk-count', 'keys', 'payload-order', 'cardinality-field',
               'run-under-norun-cookie', 'offsets', 'layout', 'empty-chunk', 'payload-kind', 'cookie-choice', 'legal-stream-rejected'}


def serial_family(v):
    op, c, d = v['op'], v['clause'], v.get('detail')
    if op in ('Decode', 'MustRead', 'Adopt'):
        return 'C10'
    if op in ('Ser64', 'Load64'):
        return 'C18'
    if op in ('Freeze', 'FrozenRT'):
        return 'C13'
    if op == 'LoadLegal':
        return 'C06'
    if op in ('Load', 'WriteFail'):
        return 'C05'
    if op == 'Ser':
        if c == 'listing':
            return 'C06'
        props = set()
        if isinstance(d, list):
            for x in d:
                if x in C05_CLAUSES:
                    props.add('C05')
                if x in C06_CLAUSES:
                    props.add('C06')
        return '+'.join(sorted(props)) or 'C05'
    if op in ('DetachAll', 'Scribble'):
        return 'C08'
    return None


def family(op):
    if op == 'ConcLoad': return 'C12'
    if op in ('ItNew', 'ItTake', 'ItPeek', 'ItAdvance', 'IterCb', 'Ranges'): return 'C04'
    if op in ALG: return 'C01'
    if op in MUT: return 'C02'
    if op in QRY: return 'C03'
    if op in NBR: return 'C15'
    if op in AGG: return 'C11'
    if op in TRF: return 'C16'
    return None


BITS64 = False
FUZZ = False
PAR = False
CURRENT = None
BSI_PARALLEL = {'BParOr', 'BClear', 'BRetainSet', 'BSum', 'BCompare', 'BBatchEqual', 'BBatchEqualValues', 'BMinMax', 'BTranspose', 'BTransposeCounts'}


def attribute(v):
    """Which property a recorded deviation belongs to (None = latent/structural, not a verdict)."""
    if v['clause'] == 'process-crash':
        # a fatal runtime error (memory corruption is not recoverable like a panic) on a reproducible trace: no property's
        # promise about results survives it; it is reported by the check whose traces produce it
        return CURRENT
    p = attribute32(v)
    if PAR and p in ('C19', 'C20') and v['op'] in BSI_PARALLEL:
        return p + '+C12'   # in C12's race-detector runs a wrong answer of a goroutine-parallel BSI path also counts for C12
    if BITS64 and v['op'] in ('Decode', 'Ser64', 'Load64'):
        return 'C18'
    if FUZZ and p is not None and p not in ('C09', 'C14', 'C07', 'C08'):
        return 'C10'   # in the untrusted-bytes traces every judgement about the adopted bitmap is C10's "genuine set" clause
    if BITS64 and p is not None and p != 'C18':
        # the 64-bit bitmap: everything except serialization is C17 (sharing defects also count for C07, which names the 64-bit counterparts)
        return 'C17+C07' if p == 'C07' else 'C17'
    return p


BSI_UPDATE = {'BNew', 'BSetValue', 'BSetMany', 'BClear', 'BRetain', 'BParOr', 'BAdd', 'BIncrement', 'BClone', 'BRetainSet',
              'BMarshalRT', 'BStreamRT', 'BRunOptimize'}


def attribute32(v):
    c, op = v['clause'], v['op']
    if op.startswith('B') and op[1:2].isupper():
        if c == 'goroutine-leak' or (c == 'panic' and isinstance(v.get('detail'), str) and v['detail'].startswith('hang')):
            return 'C12'
        if c in ('map', 'interference', 'read-api-inconsistent', 'cardinality', 'plane-outside-existence'):
            return 'C19' if op in BSI_UPDATE else 'C20'   # a query that changes the stored map breaks C20's independence clause
        return 'C19' if op in BSI_UPDATE else 'C20'
    if c in ('content', 'result', 'panic', 'listing', 'not-a-union-of-atoms', 'aux', 'cardinality-mismatch', 'isempty-mismatch'):
        if op in SER:
            return serial_family(v)
        if c == 'panic' and isinstance(v.get('detail'), str) and v['detail'].startswith('hang') and (op.startswith('Par') or op == 'ConcLoad'):
            return 'C12'
        if op in ('ParOr', 'ParAnd', 'ParHeapOr'):
            return 'C11+C12'
        if op == 'ConcLoad':
            return 'C12'
        return family(op)
    if c == 'interference':
        if op in QRY or op in NBR:
            return 'C03'
        if op == 'Scribble':
            return 'C08'
        if op in MUT:
            return 'C02+C07'   # a bitmap that changes without being called no longer equals the replay of its own history
        if op in TRF:
            return 'C07+C16'   # "returns the bitmap ... and leaves b unchanged": a static transform that writes elsewhere
        if op in ('ParOr', 'ParAnd', 'ParHeapOr'):
            return 'C07+C12'   # "no conflicting accesses ... to their input bitmaps": an input changed during the call
        return 'C07'
    if c in ('argument-slice-modified', 'result-aliases-input', 'sharing-witnessed'):
        # a result of a static transform that shares storage with b: mutating the result changes b (witnessed by the probe)
        return 'C07+C16' if op in TRF else 'C07'
    if c.startswith('wf-') or c == 'validate':
        return 'C09'
    if c.startswith('size-'):
        return 'C14'
    if c in ('goroutine-leak', 'parallel-call-outcome'):
        return 'C12'
    if c == 'iteration':
        return 'C04'
    if c == 'caller-buffer-written':
        if op == 'DenseRT':
            return 'C16'
        d = v.get('detail')
        return 'C08+C13' if isinstance(d, dict) and d.get('frozen') else 'C08'
    return None


def signature(prop, v):
    sig = {'op': v['op'], 'clause': v['clause']}
    d = v.get('detail')
    if v['clause'] == 'validate' and isinstance(d, str):
        sig['detail'] = d
    if v['clause'] == 'result' and isinstance(d, list):
        sig['detail'] = ','.join(sorted(str(x) for x in d))
    if v['clause'] == 'process-crash' and isinstance(d, dict):
        sig['detail'] = d.get('message')
    if v['op'].startswith('B') and isinstance(d, dict) and 'exp' in d:
        sig['negative_values'] = any(x < 0 for x in d['exp'].get('v', []))
    if v['op'].startswith('B') and isinstance(d, dict) and 'clauses' in d:
        sig['detail'] = ','.join(sorted(d['clauses']))
        sig['negative_values'] = bool(d.get('neg'))
    return sig


REQUIRED_OPS = {
    'C01': ['And', 'Or', 'Xor', 'AndNot', 'AndS', 'OrS', 'XorS', 'AndNotS', 'AndCard', 'OrCard', 'Intersects'],
    'C02': ['Add', 'CheckedAdd', 'AddInt', 'AddMany', 'Remove', 'CheckedRemove', 'AddRange', 'RemoveRange', 'Flip', 'Clear',
            'RunOptimize', 'Clone', 'Detach', 'SetCOW'],
    'C03': ['Card', 'IsEmpty', 'Contains', 'Min', 'Max', 'Rank', 'Select', 'CardInRange', 'IntersectsInterval', 'Equals', 'ToArray',
            'ChecksumRT'],
    'C15': ['NextValue', 'PreviousValue', 'NextAbsentValue', 'PreviousAbsentValue'],
    'C11': ['FastOr', 'HeapOr', 'ParOr', 'ParHeapOr', 'FastAnd', 'ParAnd', 'HeapXor', 'AndAny'],
    'C16': ['FlipS', 'AddOffset', 'DenseRT', 'BitSetRT'],
    'C05': ['Ser', 'Load', 'WriteFail'],
    'C06': ['Ser', 'LoadLegal'],
    'C13': ['Freeze', 'FrozenRT'],
    'C08': ['Load', 'FrozenRT', 'DetachAll', 'Scribble'],
    'C04': ['ItNew', 'ItTake', 'ItPeek', 'ItAdvance', 'IterCb', 'Ranges'],
    'C19': ['BSetValue', 'BSetMany', 'BClear', 'BRetain', 'BParOr', 'BAdd', 'BIncrement', 'BClone', 'BRetainSet', 'BMarshalRT', 'BStreamRT'],
    'C20': ['BCompare', 'BCompareBSI', 'BBatchEqual', 'BBatchEqualValues', 'BMinMax', 'BSum', 'BTranspose', 'BTransposeCounts'],
}


def vacuity(prop, tier, ops, kinds):
    return ['operation %s never exercised' % o for o in REQUIRED_OPS.get(prop, []) if ops.get(o, 0) == 0]


def mc_cfg(mode, struct, depth=1, maxlist=0, inv=True):
    s = 'SPECIFICATION Spec\nCONSTANTS\n  Mode = "%s"\n  Depth = %d\n  Struct = "%s"\n  MaxList = %d\n' % (mode, depth, struct, maxlist)
    if inv:
        s += 'INVARIANT TypeOK QueriesConsistent\nPROPERTY OnlyTargetChanges\n'
    else:
        s += 'INVARIANT TypeOK\nPROPERTY OnlyTargetChanges\n'
    s += 'ACTION_CONSTRAINT EmitStep\nCHECK_DEADLOCK FALSE\n'
    return s


def M(name, mode, struct, depth=1, maxlist=0, sim=None, workers=4):
    m = {'name': name, 'module': 'MCSet.tla', 'cfg_text': mc_cfg(mode, struct, depth, maxlist, inv=(mode == 'step')), 'workers': workers}
    m['deps'] = ('RoaringSet.tla', 'Nums.tla', 'RoaringSerial.tla')
    if sim:
        m['mode'] = 'simulate'
        m['sim'] = sim
    return m


ALLKINDS = ['tiny', 'array', 'threshold', 'bitmap', 'run', 'chunky', 'top', 'mixed', 'periodic']
K9 = ALLKINDS[:8] + ['keygaps']   # + every cell in a chunk / bucket key of its own, unused keys between them
ASSUME_SET = [
    'the harness interval-set/atom counting code (iset.go, universe.go, view32.go) is correct; it shares no code with the library',
    'arguments stay inside the documented domains listed in DESIGN 8.0',
    'TLC evaluates the specification faithfully; exhaustive only within the stated small bounds, sampling beyond',
]


def c01(tier):
    q = tier == 'quick'
    return {
        'rule': 'model: all pairs of subsets of 6 atoms x 48 binary-algebra calls (exhaustive, TLC) + all pairs of subsets of 5 chunk-sized cells (every alignment of chunk keys) x 48 calls; every transition is a script replayed under sampled concretisations x random build recipes; plus randomized real-scale traces; a case is one recorded call, non-trivial when it has at least one non-empty operand',
        'assumptions': ASSUME_SET,
        'phases': [
            {'kind': 'replay', 'model': M('pairs_S6', 'pairs', 'S6'), 'kinds': K9, 'sample': 0.004 if q else 0.04},
            {'kind': 'replay', 'model': M('keys_K5', 'keys', 'K5'), 'kinds': ['chunky', 'keyspread', 'chunky', 'keygaps'], 'sample': 0.06 if q else 0.5},
            {'kind': 'drive', 'profile': 'algebra', 'traces': 160 if q else 2000, 'steps': 40},
            {'kind': 'drive', 'profile': 'kernel', 'traces': 900 if q else 12000, 'steps': 0},
        ],
    }


def c02(tier):
    q = tier == 'quick'
    return {
        'rule': 'model: every mutation call from every subset of 7 atoms (exhaustive, TLC) + TLC-simulated histories of depth 12 over two slots; replayed under concretisations that put the call at the array/bitmap/run conversions; plus randomized real-scale histories',
        'assumptions': ASSUME_SET,
        'phases': [
            {'kind': 'replay', 'model': M('step_S7', 'step', 'S7'), 'kinds': K9, 'sample': 0.02 if q else 0.5,
             'extra': ['-opfilter', 'mut']},
            {'kind': 'replay', 'model': M('hist_S7', 'hist', 'S7', depth=12, sim={'num': 300 if q else 6000, 'depth': 13, 'seed': 7}),
             'kinds': K9, 'sample': 0.25 if q else 0.5},
            {'kind': 'drive', 'profile': 'history', 'traces': 160 if q else 3000, 'steps': 50},
            {'kind': 'drive', 'profile': 'burst', 'traces': 100 if q else 2000, 'steps': 0},
            {'kind': 'replay', 'model': M('cow_S6', 'cow', 'S6', depth=8, sim={'num': 1500 if q else 10000, 'depth': 10, 'seed': 5}),
             'kinds': ['chunky', 'keyspread', 'chunky', 'threshold'], 'sample': 0.1 if q else 0.3, 'extra': ['-keeprcp']},
        ],
    }


def c03(tier):
    q = tier == 'quick'
    return {
        'rule': 'model: every query call in every subset-state of 7 atoms (exhaustive, TLC); replayed under concretisations (full chunks, single values, key 0xFFFF); plus randomized real-scale traces with landmark arguments',
        'assumptions': ASSUME_SET,
        'phases': [
            {'kind': 'replay', 'model': M('step_S7', 'step', 'S7'), 'kinds': K9, 'sample': 0.02 if q else 0.5,
             'extra': ['-opfilter', 'query']},
            {'kind': 'drive', 'profile': 'query', 'traces': 160 if q else 3000, 'steps': 50},
            {'kind': 'drive', 'profile': 'kernel', 'traces': 600 if q else 12000, 'steps': 0},
        ],
    }


def c15(tier):
    q = tier == 'quick'
    return {
        'rule': 'model: the four neighbour queries at every cell boundary (both sides) in every subset-state of 7 atoms; replayed under concretisations with keys > 0, full chunks, gaps; plus randomized traces',
        'assumptions': ASSUME_SET,
        'phases': [
            {'kind': 'replay', 'model': M('step_S7', 'step', 'S7'), 'kinds': K9, 'sample': 0.03 if q else 0.6,
             'extra': ['-opfilter', 'nbr']},
            {'kind': 'drive', 'profile': 'neighbour', 'traces': 160 if q else 3000, 'steps': 50},
        ],
    }


def c11(tier):
    q = tier == 'quick'
    return {
        'rule': 'model: all pairs of subsets of 4 atoms (+ a full and an empty bitmap) x every list (length 0..3, duplicates, an empty member) x 8 aggregates (exhaustive, TLC); replayed with chunk keys placed at the bottom, middle and top of the key space; plus randomized traces with worker counts 0,1,2,3,5,16',
        'assumptions': ASSUME_SET,
        'phases': [
            {'kind': 'replay', 'model': M('agg_S4', 'agg', 'S4', maxlist=3), 'kinds': ['tiny', 'array', 'bitmap', 'run', 'chunky', 'top', 'mixed', 'keyspread', 'keygaps'],
             'sample': 0.04 if q else 0.3},
            {'kind': 'drive', 'profile': 'aggregate', 'traces': 160 if q else 3000, 'steps': 40},
            {'kind': 'drive', 'profile': 'aggsparse', 'traces': 300 if q else 2500, 'steps': 0},
            {'kind': 'drive', 'profile': 'aggkernel', 'traces': 400 if q else 4000, 'steps': 0},
            {'kind': 'replay', 'model': par_models()[0], 'kinds': ['chunks'], 'sample': 1.0, 'shards': 4},
        ],
    }


def c16(tier):
    q = tier == 'quick'
    return {
        'rule': 'model: static flip / offset / dense round trips from every subset-state (exhaustive, TLC); offsets replayed on periodic universes (multiples of the period across 0 and 2^32); plus randomized traces',
        'assumptions': ASSUME_SET,
        'phases': [
            {'kind': 'replay', 'model': M('step_S4', 'step', 'S4'), 'kinds': ['periodic', 'periodic', 'periodic', 'tiny', 'array', 'bitmap', 'run', 'top'],
             'sample': 0.06 if q else 0.6, 'extra': ['-opfilter', 'trans']},
            {'kind': 'replay', 'model': M('step_S8', 'step', 'S8'), 'kinds': ['periodic', 'mixed', 'threshold', 'chunky'],
             'sample': 0.01 if q else 0.15, 'extra': ['-opfilter', 'trans']},
            {'kind': 'drive', 'profile': 'transform', 'traces': 120 if q else 2500, 'steps': 40},
            {'kind': 'drive', 'profile': 'offsetkernel', 'traces': 600 if q else 8000, 'steps': 0},
        ],
    }


def c07(tier):
    q = tier == 'quick'
    return {
        'rule': 'every producer (Clone, static/in-place algebra, Flip, AddOffset, aggregates) followed by single-chunk writes on every participant; content of ALL slots compared with the specification after every call (OnlyTargetChanges); structural sharing alarms are turned into behavioural witnesses by a write probe',
        'assumptions': ASSUME_SET,
        'phases': [
            {'kind': 'replay', 'model': M('cow_S6', 'cow', 'S6', depth=8, sim={'num': 1500 if q else 10000, 'depth': 10, 'seed': 5}),
             'kinds': ['chunky', 'keyspread', 'chunky', 'threshold'], 'sample': 0.25 if q else 0.3, 'extra': ['-keeprcp']},
            {'kind': 'drive', 'profile': 'sharing', 'traces': 400 if q else 2500, 'steps': 60, 'extra': ['-minkeys', '3', '-cow']},
            {'kind': 'drive', 'profile': 'sharing', 'traces': 160 if q else 1000, 'steps': 60},
            {'kind': 'drive', 'profile': 'aggkernel', 'traces': 400 if q else 3000, 'steps': 0},
            {'kind': 'drive', 'profile': 'aggsparse', 'traces': 160 if q else 1200, 'steps': 0},
            {'kind': 'drive', 'profile': 'kernel', 'traces': 300 if q else 3000, 'steps': 0},
            {'kind': 'drive', 'profile': 'cowkeys', 'traces': 300 if q else 3000, 'steps': 0},
        ],
    }


def c09(tier):
    q = tier == 'quick'
    return {
        'rule': 'union driver: all public operations from the empty bitmap, histories of length 80; WellFormed (own walk over the raw view) and Validate()==nil evaluated by TLC on every post-state',
        'assumptions': ASSUME_SET,
        'phases': [
            {'kind': 'drive', 'profile': 'all', 'traces': 200 if q else 4000, 'steps': 80},
            {'kind': 'drive', 'profile': 'burst', 'traces': 160 if q else 3000, 'steps': 0},
            {'kind': 'drive', 'profile': 'kernel', 'traces': 300 if q else 6000, 'steps': 0},
            {'kind': 'drive', 'profile': 'aggkernel', 'traces': 200 if q else 4000, 'steps': 0},
            {'kind': 'drive', 'profile': 'transform', 'traces': 120 if q else 2500, 'steps': 40},
            {'kind': 'drive', 'profile': 'offsetkernel', 'traces': 400 if q else 8000, 'steps': 0},
        ],
    }


def c14(tier):
    q = tier == 'quick'
    return {
        'rule': 'union driver; after every call TLC checks size <= 8 + 9*ceil(x/65536) + 2N and <= BoundSerializedSizeInBytes on the logged size, with N computed by the specification from the content',
        'assumptions': ASSUME_SET,
        'phases': [
            {'kind': 'drive', 'profile': 'all', 'traces': 200 if q else 4000, 'steps': 80, 'extra': []},
            {'kind': 'drive', 'profile': 'burst', 'traces': 240 if q else 4000, 'steps': 0},
            {'kind': 'drive', 'profile': 'transform', 'traces': 120 if q else 2500, 'steps': 40},
            {'kind': 'drive', 'profile': 'offsetkernel', 'traces': 400 if q else 8000, 'steps': 0},
            {'kind': 'drive', 'profile': 'kernel', 'traces': 200 if q else 4000, 'steps': 0},
        ],
    }


def MS(name, mode, struct):
    return {'name': name, 'module': 'MCSet.tla', 'cfg_text': mc_cfg(mode, struct, 1, 0, inv=False), 'workers': 4}


def c05(tier):
    q = tier == 'quick'
    return {
        'rule': 'model: from every subset-state of 6 atoms, every writer x decode entry point x reader chunking x fresh/reused receiver x failing writers (exhaustive, TLC); replayed under concretisations x build recipes (incl. run chunks, <4 and >=4 chunks); plus randomized traces where serialized bitmaps come from arbitrary histories; byte accounting judged by RoaringSerial.tla',
        'assumptions': ASSUME_SET + ['the independent portable-format parser in harness/serial32.go'],
        'phases': [
            {'kind': 'replay', 'model': MS('serial_S6', 'serial', 'S6'), 'kinds': ALLKINDS[:8], 'sample': 0.03 if q else 0.6},
            {'kind': 'drive', 'profile': 'serial', 'traces': 160 if q else 3000, 'steps': 50},
            {'kind': 'drive', 'profile': 'serial', 'traces': 48 if q else 800, 'steps': 25, 'extra': ['-spread', '4096']},
            {'kind': 'drive', 'profile': 'serial', 'traces': 24 if q else 300, 'steps': 12, 'extra': ['-spread', '20000']},
        ],
    }


def c06(tier):
    q = tier == 'quick'
    return {
        'rule': 'write direction: library bytes -> independent parser -> field record judged by RoaringSerial.tla (cookie, count, run flags, keys, cardinality fields, offsets, payload kind) + decoded elements = content; read direction: TLC enumerates every subset of 4 atoms x 64 encoder policies (cookie choice, run-vs-native per chunk, run granularity) x 5 entry points; the harness encoder builds the bytes; the library must read exactly the set',
        'assumptions': ASSUME_SET + ['the independent portable-format parser/encoder in harness/serial32.go encode my reading of RoaringFormatSpec'],
        'phases': [
            {'kind': 'replay', 'model': MS('legal_S4', 'legal', 'S4'), 'kinds': ['tiny', 'array', 'threshold', 'bitmap', 'run', 'chunky', 'mixed', 'top'],
             'sample': 0.025 if q else 0.5},
            {'kind': 'replay', 'model': MS('serial_S6', 'serial', 'S6'), 'kinds': ALLKINDS[:8], 'sample': 0.01 if q else 0.3, 'extra': ['-opfilter', 'ser']},
            {'kind': 'drive', 'profile': 'legal', 'traces': 120 if q else 2500, 'steps': 40},
            {'kind': 'drive', 'profile': 'legal', 'traces': 48 if q else 800, 'steps': 20, 'extra': ['-spread', '4096']},
            {'kind': 'drive', 'profile': 'kernel', 'traces': 300 if q else 6000, 'steps': 0},
            {'kind': 'drive', 'profile': 'serial', 'traces': 80 if q else 1500, 'steps': 40},
            {'kind': 'drive', 'profile': 'serial', 'traces': 48 if q else 800, 'steps': 25, 'extra': ['-spread', '4096']},
        ],
    }


def c13(tier):
    q = tier == 'quick'
    return {
        'rule': 'model as C05 (Freeze / FrozenRT calls); the three frozen writers compared byte for byte, sizes, too-small buffers, layout judged by RoaringSerial.tla from an independent frozen parser; frozen views then undergo mutations',
        'assumptions': ASSUME_SET + ['the independent frozen-format parser in harness/serial32.go'],
        'phases': [
            {'kind': 'replay', 'model': MS('serial_S6', 'serial', 'S6'), 'kinds': ALLKINDS[:8], 'sample': 0.04 if q else 0.8, 'extra': ['-opfilter', 'frozen']},
            {'kind': 'drive', 'profile': 'serial', 'traces': 160 if q else 3000, 'steps': 50},
        ],
    }


def c08(tier):
    q = tier == 'quick'
    return {
        'rule': 'zero-copy loads (FromBuffer, FromUnsafeBytes, FrozenView, FromDense without copy) followed by random histories on the loaded bitmap and on bitmaps derived from it; every caller buffer is hashed after every call (BufferImmutable); DetachAll then Scribble then further calls (DetachSevers)',
        'assumptions': ASSUME_SET + ['buffer writes are observed by hashing after every call (a write that is undone within one call is invisible)'],
        'phases': [
            {'kind': 'drive', 'profile': 'zerocopy', 'traces': 240 if q else 4000, 'steps': 60},
            {'kind': 'drive', 'profile': 'kernel', 'traces': 600 if q else 12000, 'steps': 0},      # operands loaded zero-copy (recipes Rz, Rof) x every kernel
            {'kind': 'drive', 'profile': 'aggkernel', 'traces': 200 if q else 4000, 'steps': 0},
        ],
    }


def par_cfg(pipeline, nw, lk=0, hk=3, fw='FALSE', items='I0', capa=2, capb=1, sweep=False):
    inv = 'NoSendOnClosed NoDuplicateResult AllCollected' + (' SweepInit' if sweep else ' PartitionExact')
    return ('SPECIFICATION Spec\nCONSTANTS\n  Pipeline = "%s"\n  NW = %d\n  KBITS = 4\n  LK = %d\n  HK = %d\n  FixedWidth = %s\n'
            '  CapA = %d\n  CapB = %d\n  Items <- %s\nINVARIANT %s\nPROPERTY Termination NoLeak\n') % (pipeline, nw, lk, hk, fw, capa, capb, items, inv)


def PM(name, **kw):
    return {'name': name, 'module': 'MCParAgg.tla', 'cfg_text': par_cfg(**kw), 'workers': 2, 'deps': ('ParAgg.tla',)}


def sweep_to_scripts(obj):
    """TLC's counterexamples to PartitionExact under the pinned code's fixed-width arithmetic (4-bit keys)
    become 16-bit scripts: 4-bit key k -> chunk key 65520+k (top-aligned so that the wrap coincides)."""
    out = []
    for lk, hk, nw in obj.get('bad', []):
        n = hk - lk + 1
        cells = list(range(1, n + 1))
        st = {'percell': [1] * n, 'point': [False] * n}
        builds = [{'op': 'Build', 'dst': 1, 'as': [c for c in cells if c % 2 == 1], 'rcp': 'R'},
                  {'op': 'Build', 'dst': 2, 'as': [c for c in cells if c % 2 == 0], 'rcp': 'Ro'},
                  {'op': 'Build', 'dst': 3, 'as': [cells[0], cells[-1]], 'rcp': 'R'}]
        for op in ('ParOr',):
            out.append({'st': 'K%d' % n, 'struct': st, 'kind': 'chunks', 'base': 65520 + lk,
                        'calls': builds + [{'op': op, 'dst': 4, 'xs': [1, 2, 3], 'w': nw}, {'op': op, 'dst': 5, 'xs': [2, 1], 'w': nw}]})
    return out


def par_models():
    ms = [PM('parsweep', pipeline='ParOr', nw=1, fw='TRUE', sweep=True)]
    ms[0]['post'] = sweep_to_scripts
    for nw, lk, hk in ((1, 0, 3), (2, 2, 10), (3, 0, 15), (1, 7, 15), (2, 0, 1)):
        ms.append(PM('paror_w%d_%d_%d' % (nw, lk, hk), pipeline='ParOr', nw=nw, lk=lk, hk=hk))
    for nw, it in ((1, 'I5'), (2, 'I3'), (2, 'I4'), (3, 'I5'), (2, 'I0'), (1, 'I1'), (3, 'I2')):
        ms.append(PM('heap_w%d_%s' % (nw, it), pipeline='Heap', nw=nw, items=it))
    return ms


GATE_CONFIGS = {
    # name: (Pipeline, NW, LK, HK, Items definition in MCTraceParAgg)
    'paror_w1_k3': ('ParOr', 1, 0, 2, 'I0'), 'paror_w2_k5': ('ParOr', 2, 3, 7, 'I0'), 'paror_w3_k4': ('ParOr', 3, 1, 4, 'I0'),
    'paror_w1_k9': ('ParOr', 1, 0, 8, 'I0'),
    'paror64_w2_k4': ('ParOr', 2, 2, 5, 'I0'), 'paror64_w1_k6': ('ParOr', 1, 0, 5, 'I0'),
    'heapor_w2_i3': ('Heap', 2, 0, 3, 'I3'), 'heapor_w1_i5': ('Heap', 1, 0, 3, 'I5'), 'heapor_w3_i4': ('Heap', 3, 0, 3, 'I4m'),
    'parand_w2_i4': ('Heap', 2, 0, 3, 'I4m'), 'parand_w1_i0': ('Heap', 1, 0, 3, 'I0'), 'parand_w3_i2': ('Heap', 3, 0, 3, 'I2m'),
}


WALK_QUICK = ['paror_w1_k3', 'paror_w2_k5', 'paror64_w2_k4', 'paror64_w1_k6', 'heapor_w2_i3', 'heapor_w1_i5', 'parand_w1_i0', 'parand_w3_i2']
WALK_THOROUGH = sorted(GATE_CONFIGS)


def gate_cfg(name):
    pl, nw, lk, hk, items = GATE_CONFIGS[name]
    return ('SPECIFICATION TSpec\nCONSTANTS\n  Pipeline = "%s"\n  NW = %d\n  KBITS = 4\n  LK = %d\n  HK = %d\n  FixedWidth = FALSE\n'
            '  CapA = 64\n  CapB = 64\n  Items <- %s\nINVARIANT NotFinished SafeAlong\nPOSTCONDITION HighWater\nCHECK_DEADLOCK FALSE\n') % (pl, nw, lk, hk, items)


def sched_model(name):
    """State graph of ParAgg for one configuration, as edge lines for the schedule walker (harness/parwalk.go)."""
    pl, nw, lk, hk, items = GATE_CONFIGS[name]
    cfg = ('SPECIFICATION Spec\nCONSTANTS\n  Pipeline = "%s"\n  NW = %d\n  KBITS = 4\n  LK = %d\n  HK = %d\n  FixedWidth = FALSE\n'
           '  CapA = 64\n  CapB = 64\n  Items <- %s\nINVARIANT NoSendOnClosed NoDuplicateResult AllCollected\n'
           'ACTION_CONSTRAINT EmitEdge\nCHECK_DEADLOCK FALSE\n') % (pl, nw, lk, hk, items)
    return {'name': 'sched_' + name, 'module': 'SchedParAgg.tla', 'cfg_text': cfg, 'workers': 1, 'deps': ('ParAgg.tla',)}


def c12(tier):
    q = tier == 'quick'
    ms = par_models()
    return {
        'rule': 'ParAgg.tla (PlusCal transcription of the ParOr and ParHeapOr/ParAnd pipelines): all interleavings for 1..3 workers, scaled channel capacities, item lists incl. zero items and more items than capacity: no deadlock, termination, no send on closed channel, every index collected once, key ranges partition [lKey,hKey]; parameter sweep of the partition arithmetic with the pinned fixed-width conversion -> counterexamples concretised at 16 bits and run on the real ParOr; real Par* calls under the race detector with worker counts 0,1,2,3,5,16 and GOMAXPROCS 1,2,4,16: result = fold (TraceSet), goroutine census, watchdog',
        'assumptions': ASSUME_SET + ['race freedom and absence of leaks are observed on the schedules the Go runtime produced in this run, not proved for all schedules; the protocol-level proof is about ParAgg.tla as transcribed'],
        'race': True,
        'models': ms[1:],
        'phases': [
            {'kind': 'replay', 'model': ms[0], 'kinds': ['chunks'], 'sample': 1.0, 'shards': 4},
            {'kind': 'drive', 'profile': 'parallel', 'traces': 64 if q else 800, 'steps': 40, 'shards': 8, 'gomaxprocs': [1, 2, 4, 16]},
            {'kind': 'drive', 'profile': 'parallel', 'traces': 48 if q else 600, 'steps': 30, 'shards': 8, 'gomaxprocs': [1, 2, 4, 16], 'extra': ['-spread', '300']},
            {'kind': 'drive', 'profile': 'aggsparse', 'traces': 96 if q else 1000, 'steps': 0, 'shards': 8, 'gomaxprocs': [1, 2, 4, 16]},
            {'kind': 'drive', 'profile': 'aggsparse', 'traces': 64 if q else 1000, 'steps': 0, 'shards': 4, 'gomaxprocs': [2, 16], 'extra': ['-bits', '64']},
            {'kind': 'drive', 'cmd': 'bsi', 'profile': 'update', 'traces': 96 if q else 1500, 'steps': 30, 'shards': 6, 'gomaxprocs': [1, 2, 4, 16],
             'trace_module': 'TraceBSI.tla', 'trace_cfg': 'TraceBSI.cfg'},
            {'kind': 'drive', 'cmd': 'bsi', 'profile': 'query', 'traces': 360 if q else 3000, 'steps': 30, 'shards': 12, 'gomaxprocs': [1, 2, 4, 16],
             'trace_module': 'TraceBSI.tla', 'trace_cfg': 'TraceBSI.cfg'},
            {'kind': 'drive', 'cmd': 'bsi', 'profile': 'bulk', 'traces': 8 if q else 100, 'steps': 20, 'shards': 8, 'gomaxprocs': [2, 4, 16],
             'trace_module': 'TraceBSI.tla', 'trace_cfg': 'TraceBSI.cfg'},
            {'kind': 'gate', 'configs': sorted(GATE_CONFIGS), 'runs': 12 if q else 100, 'gomaxprocs': [1, 2, 4, 16]},
            {'kind': 'walk', 'configs': WALK_QUICK if q else WALK_THOROUGH, 'walks': 1500 if q else 40000, 'budget': 120 if q else 900, 'gomaxprocs': [4, 16, 2, 1]},
        ],
    }


def c17(tier):
    q = tier == 'quick'
    B = ['-bits', '64']
    return {
        'rule': 'the RoaringSet specification instantiated at 2^64: TLC models (pairs of subsets x binary algebra; every mutation/query call from every subset-state; simulated histories; aggregates) replayed on roaring64 under concretisations placed inside a bucket, straddling a 2^32 boundary, in bucket 0 and in bucket 0xFFFFFFFF; plus randomized real-scale 64-bit traces',
        'assumptions': ASSUME_SET + ['ranges are kept below 2^27 integers wide (a 64-bit range call materialises every chunk it covers)'],
        'phases': [
            {'kind': 'replay', 'model': M('pairs_S6', 'pairs', 'S6'), 'kinds': ['tiny', 'array', 'threshold', 'bitmap', 'run', 'chunky', 'top', 'mixed', 'keygaps', 'keygaps'], 'sample': 0.002 if q else 0.02, 'extra': B},
            {'kind': 'replay', 'model': M('step_S7', 'step', 'S7'), 'kinds': ['tiny', 'array', 'threshold', 'bitmap', 'run', 'chunky', 'top', 'mixed', 'keygaps', 'keygaps'], 'sample': 0.015 if q else 0.15, 'extra': B},
            {'kind': 'replay', 'model': M('hist_S7', 'hist', 'S7', depth=12, sim={'num': 300 if q else 6000, 'depth': 13, 'seed': 7}),
             'kinds': ['tiny', 'array', 'threshold', 'run', 'chunky', 'top', 'mixed', 'keygaps', 'keygaps'], 'sample': 0.15 if q else 0.3, 'extra': B},
            {'kind': 'replay', 'model': M('agg_S4', 'agg', 'S4', maxlist=3), 'kinds': ['tiny', 'array', 'run', 'chunky', 'top', 'mixed', 'keygaps', 'keygaps'], 'sample': 0.01 if q else 0.1, 'extra': B},
            {'kind': 'replay', 'model': M('keys_K5', 'keys', 'K5'), 'kinds': ['keygaps', 'keygaps', 'chunky'], 'sample': 0.04 if q else 0.3, 'extra': B},
            {'kind': 'replay', 'model': M('cow_S6', 'cow', 'S6', depth=8, sim={'num': 1500 if q else 10000, 'depth': 10, 'seed': 5}),
             'kinds': ['keygaps', 'chunky', 'tiny'], 'sample': 0.1 if q else 0.4, 'extra': B + ['-keeprcp']},
            {'kind': 'drive', 'profile': 'all64', 'traces': 200 if q else 2500, 'steps': 50, 'extra': B},
            {'kind': 'drive', 'profile': 'aggsparse', 'traces': 240 if q else 2000, 'steps': 0, 'extra': B},
            {'kind': 'drive', 'profile': 'cowkeys', 'traces': 300 if q else 3000, 'steps': 0, 'extra': B},
            {'kind': 'drive', 'profile': 'iter64', 'traces': 80 if q else 1500, 'steps': 50, 'extra': B},
            {'kind': 'replay', 'model': M('iter_S7', 'iter', 'S7', depth=6, sim={'num': 400 if q else 8000, 'depth': 8, 'seed': 11}),
             'kinds': ['tiny', 'array', 'run', 'chunky', 'top', 'mixed', 'keygaps', 'keygaps'], 'sample': 0.05 if q else 0.2, 'extra': B},
        ],
    }


def c18(tier):
    q = tier == 'quick'
    B = ['-bits', '64']
    return {
        'rule': 'roaring64 bitmaps from arbitrary histories serialized by the four writers and read back by the four entry points (chunked readers, fresh/reused receiver): Equal (projection), byte accounting, exact consumption, Validate before/after; truncations and header corruptions in a child process with a memory limit (decode64 command)',
        'assumptions': ASSUME_SET,
        'phases': [
            {'kind': 'drive', 'profile': 'serial64', 'traces': 160 if q else 3000, 'steps': 40, 'extra': B},
            {'kind': 'drive', 'cmd': 'fuzzdec64', 'profile': 'fuzz64', 'traces': 240 if q else 6000, 'steps': 0, 'shards': 12},
        ],
    }


def c04(tier):
    q = tier == 'quick'
    return {
        'rule': 'RoaringIter.tla: iterators as state machines over atoms (rem / one), driven in groups; TLC simulates interleavings of ItNew/ItTake/ItPeek/ItAdvance (all kinds, all unset windows, all advance targets incl. behind the cursor) from every subset-state and enumerates every one-shot consumer x stop cell; replayed under concretisations (runs ending at 65535, chunks at consecutive keys, windows ending at 2^32) and validated step by step by TLC; plus random traces',
        'assumptions': ASSUME_SET + ['enumerations above 2^22 values are not driven'],
        'phases': [
            {'kind': 'replay', 'model': M('iter_S7', 'iter', 'S7', depth=6, sim={'num': 400 if q else 4000, 'depth': 8, 'seed': 11}),
             'kinds': K9, 'sample': 0.12 if q else 0.4},
            {'kind': 'replay', 'model': M('oneshot_S7', 'oneshot', 'S7'), 'kinds': K9,
             'sample': 0.03 if q else 0.3},
            {'kind': 'drive', 'profile': 'iter', 'traces': 200 if q else 2500, 'steps': 60},
        ],
    }


def c10(tier):
    q = tier == 'quick'
    return {
        'rule': 'structured corruptions (cookie, count, key order, cardinality field, run flags, offsets, unsorted/duplicate arrays, overlapping/adjacent/wrapping/zero runs, bitmap bits, trailing bytes, byte flips, random bytes, frozen header/typecode/count) and all truncation classes of valid streams of random shapes, plus the repository crash corpus, through 7 decode entry points with the input flush against PROT_NONE guard pages; outcome must be error or normal return, every proper prefix rejected, MustReadFrom = ReadFrom + panic iff invalid (RoaringSet.tla Decode/MustRead clauses); a decoded bitmap that validates is ADOPTED and must pass the query / iterator / algebra / re-serialization battery judged by RoaringSet, RoaringIter and RoaringSerial',
        'assumptions': ASSUME_SET + ['out-of-bounds reads are observed with guard pages directly after (or before) the input, not proved absent', 'hang = no return within 20 s'],
        'phases': [
            {'kind': 'drive', 'cmd': 'fuzzdec', 'profile': 'fuzz', 'traces': 1600 if q else 40000, 'steps': 0, 'shards': 12},
        ],
    }


def bsi_model(name, mode, depth=1, sim=None):
    cfg = ('SPECIFICATION Spec\nCONSTANTS\n  Mode = "%s"\n  Depth = %d\n  NC = 3\n  VNeg = 2\n  VMax = 1\n'
           'INVARIANT TypeOK\nPROPERTY QueriesPure\nACTION_CONSTRAINT EmitStep\nCHECK_DEADLOCK FALSE\n') % (mode, depth)
    m = {'name': name, 'module': 'MCBSI.tla', 'cfg_text': cfg, 'workers': 4, 'deps': ('BSI.tla',)}
    if sim:
        m['mode'] = 'simulate'
        m['sim'] = sim
    return m


def c19(tier):
    q = tier == 'quick'
    return {
        'rule': 'BSI.tla: both BSI implementations as a partial map column -> integer; MCBSI.tla (TLC): every update/copy call from every map over 3 columns x values -2..1 (125 states x 3 second operands) and simulated 10-step histories, replayed on both implementations under random concretisations; random histories of SetValue/SetBigValue, SetMany, ClearValues, Retain, ParOr on disjoint columns, Add/Increment on non-negative values, Clone, NewBSIRetainSet, MarshalBinary and WriteTo round trips over 6 columns spread over chunks/buckets, abstract values -8..7 scaled by 2^k (k in 0..55, and 70 through the big-value API), auto-sized and fixed-width indexes; after EVERY call the map read back through GetValue/GetBigValue/GetValues/ValueExists/GetCardinality is compared with the specified map by TLC (TraceBSI.tla), plane-within-existence checked on the raw planes',
        'assumptions': ['values and comparison constants stay inside the range the index was created or auto-sized for (DESIGN 8.0)',
                        'ParOr operands have pairwise disjoint column sets; Add/Increment only on non-negative values (a column that holds nothing counts as 0 and exists afterwards); Increment only when values are unscaled',
                        'the harness scaling/unscaling of values by 2^k is exact (math/big)'],
        'trace_module': 'TraceBSI.tla', 'trace_cfg': 'TraceBSI.cfg',
        'phases': [
            {'kind': 'replay', 'cmd': 'bsi', 'model': bsi_model('bsi_step', 'step'), 'kinds': ['x'], 'sample': 0.03 if q else 0.6, 'extra': ['-opfilter', 'update']},
            {'kind': 'replay', 'cmd': 'bsi', 'model': bsi_model('bsi_hist', 'hist', depth=10, sim={'num': 300 if q else 6000, 'depth': 12, 'seed': 3}),
             'kinds': ['x'], 'sample': 0.5 if q else 1.0},
            {'kind': 'drive', 'cmd': 'bsi', 'profile': 'update', 'traces': 1200 if q else 20000, 'steps': 40, 'shards': 12},
            {'kind': 'drive', 'cmd': 'bsi', 'profile': 'bulk', 'traces': 12 if q else 200, 'steps': 30, 'shards': 12},
        ],
    }


def c20(tier):
    q = tier == 'quick'
    return {
        'rule': 'MCBSI.tla (TLC) enumerates every query x operator x in-range constants x found-set from every small map and the calls are replayed on both implementations; BSI.tla query clauses: CompareValue/CompareBigValue (LT LE EQ GE GT RANGE) with found-sets nil / subsets of existing columns / the index own existence bitmap, CompareBSI, BatchEqual/BatchEqualBig/BatchEqualValues (incl. duplicate and cube value lists), MinMax/MinMaxBig, Sum/SumBigValues, Transpose/IntersectAndTranspose, TransposeWithCounts, worker counts 0,1,2,3,16, on stored maps with mixed signs produced by random update histories; BULK traces: one abstract column is a class of 100000..140000 concrete columns written and read as one, query value lists carry 128..427 additional scattered values that no column can hold, so that the size-selected code paths (linear scans, batched goroutine fan-out) are the ones answering; every result is compared by TLC with the predicate evaluated on the specified map; each query is issued twice and must answer the same (ResultIndependent), and the stored map must be unchanged by queries',
        'assumptions': ['comparison constants lie inside the hull of the stored values for auto-sized indexes and inside the declared bounds for fixed-width ones',
                        'Transpose* only on non-negative values (values become column ids); TransposeWithCounts (64-bit) is given an explicit filter set',
                        'found sets contain existing columns only'],
        'trace_module': 'TraceBSI.tla', 'trace_cfg': 'TraceBSI.cfg',
        'phases': [
            {'kind': 'replay', 'cmd': 'bsi', 'model': bsi_model('bsi_step', 'step'), 'kinds': ['x'], 'sample': 0.03 if q else 0.6, 'extra': ['-opfilter', 'query']},
            {'kind': 'drive', 'cmd': 'bsi', 'profile': 'query', 'traces': 1200 if q else 20000, 'steps': 40, 'shards': 12},
            {'kind': 'drive', 'cmd': 'bsi', 'profile': 'bulk', 'traces': 36 if q else 600, 'steps': 30, 'shards': 12},
        ],
    }


PLANS = {'C19': c19, 'C20': c20, 'C04': c04, 'C10': c10, 'C12': c12, 'C17': c17, 'C18': c18, 'C05': c05, 'C06': c06, 'C13': c13, 'C08': c08, 'C01': c01, 'C02': c02, 'C03': c03, 'C15': c15, 'C11': c11, 'C16': c16, 'C07': c07, 'C09': c09, 'C14': c14}
