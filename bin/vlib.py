"""Shared machinery of the /verif checks: build, TLC runs (model + trace validation), drivers,
confirmation, known findings, evidence.  See DESIGN.md sections 5-7."""
import hashlib, json, os, shutil, subprocess, sys, time, glob, re

VERIF = os.path.dirname(os.path.dirname(os.path.abspath(__file__)))
SPEC = os.path.join(VERIF, 'spec')
HARNESS = os.path.join(VERIF, 'harness')
BUILD = os.path.join(VERIF, '.build')
CACHE = os.path.join(VERIF, 'cache')
SCRATCH_ROOT = os.path.join(VERIF, '.scratch')
REPLAYS = os.path.join(VERIF, 'replays')
EVIDENCE = os.path.join(VERIF, 'evidence')
RVERIF = os.path.join(BUILD, 'rverif')
STRUCTURES = os.path.join(SPEC, 'structures.json')
NCPU = os.cpu_count() or 4


class Inconclusive(Exception):
    pass


def log(*a):
    print(*a, file=sys.stderr, flush=True)


def go_env():
    env = dict(os.environ)
    env.pop('GOSUMDB', None)
    env.update(GOFLAGS='-mod=mod', GOPROXY='off')
    env.pop('GOTOOLCHAIN', None)
    return env


_built = {}


def build_harness(race=False):
    """Builds the harness against /repo's CURRENT working tree with the verif tag. Returns (binary, toolchain)."""
    key = 'race' if race else 'plain'
    if key in _built:
        return _built[key]
    os.makedirs(BUILD, exist_ok=True)
    out = RVERIF + ('-race' if race else '')
    gosum = os.path.join(HARNESS, 'go.sum')
    shutil.copyfile('/repo/go.sum', gosum)
    args = ['go', 'build', '-tags', 'verif']
    alt = os.environ.get('VERIF_REPO')   # development aid only (bin/trymutant --worktree): build against a scratch copy of the repository
    if alt:
        os.makedirs(os.path.join(BUILD, 'alt'), exist_ok=True)
        out = os.path.join(BUILD, 'alt', 'rverif-%d' % os.getpid() + ('-race' if race else ''))
        mod = os.path.join(BUILD, 'alt', 'go-%d.mod' % os.getpid())
        open(mod, 'w').write(open(os.path.join(HARNESS, 'go.mod')).read().replace('=> /repo', '=> ' + alt))
        shutil.copyfile('/repo/go.sum', mod[:-4] + '.sum')
        args += ['-modfile', mod]
    if race:
        args.append('-race')
    args += ['-o', out, '.']
    p = subprocess.run(args, cwd=HARNESS, env=go_env(), capture_output=True, text=True)
    tool = 'go (GOTOOLCHAIN=auto -> go.mod toolchain)'
    if p.returncode != 0:
        env = go_env()
        env.update(GOTOOLCHAIN='local', GOSUMDB='off')
        p2 = subprocess.run(['go1.26.8'] + args[1:], cwd=HARNESS, env=env, capture_output=True, text=True)
        if p2.returncode != 0:
            raise Inconclusive('harness build failed:\n' + p.stderr[-3000:] + '\n--- fallback:\n' + p2.stderr[-3000:])
        tool = 'go1.26.8 (fallback)'
    _built[key] = (out, tool)
    return _built[key]


def scratch(tag):
    d = os.path.join(SCRATCH_ROOT, '%s-%d' % (tag, os.getpid()))
    shutil.rmtree(d, ignore_errors=True)
    os.makedirs(d)
    return d


def copy_specs(d):
    for f in glob.glob(os.path.join(SPEC, '*.tla')) + glob.glob(os.path.join(SPEC, '*.cfg')) + [STRUCTURES]:
        if os.path.exists(f):
            shutil.copy(f, d)


def spec_hash(files, extra=''):
    h = hashlib.sha256()
    for f in sorted(files):
        h.update(open(os.path.join(SPEC, f), 'rb').read())
    h.update(extra.encode())
    return h.hexdigest()[:20]


TLC_STATS = re.compile(r'(\d+) states generated, (\d+) distinct states found')


def run_tlc(d, module, cfg, env_extra=None, workers=1, timeout=1800, extra_args=(), out_name='tlc.out'):
    env = dict(os.environ)
    env.update(env_extra or {})
    meta = os.path.join(d, 'meta-' + out_name)
    cmd = ['timeout', str(timeout), 'tlc', '-workers', str(workers), '-metadir', meta, '-config', cfg] + list(extra_args) + [module]
    outp = os.path.join(d, out_name)
    t0 = time.time()
    with open(outp, 'w') as fo:
        p = subprocess.run(cmd, cwd=d, env=env, stdout=fo, stderr=subprocess.STDOUT)
    dt = time.time() - t0
    shutil.rmtree(meta, ignore_errors=True)
    txt = open(outp, errors='replace').read()
    m = TLC_STATS.search(txt)
    stats = {'generated': int(m.group(1)), 'distinct': int(m.group(2))} if m else {}
    stats['wall_s'] = round(dt, 2)
    stats['rc'] = p.returncode
    return p.returncode, txt, stats


# ------------------------------------------------------------------------------------------------
# model runs (exhaustive / simulate), cached by spec hash

def model_run(name, module, cfg_text, mode='exhaustive', sim=None, workers=1, timeout=3600, deps=('RoaringSet.tla', 'Nums.tla', 'RoaringSerial.tla'), post=None, pcal=None):
    """Runs TLC on a bounded model, returns dict(scripts=path, stats=...). Cached by hash of spec+cfg."""
    os.makedirs(CACHE, exist_ok=True)
    key = spec_hash([module] + list(deps), cfg_text + mode + json.dumps(sim or {}) + (post.__name__ if post else ''))
    base = os.path.join(CACHE, '%s-%s' % (name, key))
    if os.path.exists(base + '.stats.json') and os.path.exists(base + '.scripts.ndjson'):
        return {'scripts': base + '.scripts.ndjson', 'stats': json.load(open(base + '.stats.json')), 'cached': True}
    d = scratch('mc-' + name)
    copy_specs(d)
    cfgname = name + '.cfg'
    open(os.path.join(d, cfgname), 'w').write(cfg_text)
    extra = []
    if mode == 'simulate':
        extra = ['-simulate', 'num=%d' % sim['num'], '-depth', str(sim['depth']), '-seed', str(sim.get('seed', 1)), '-deadlock']
    rc, txt, stats = run_tlc(d, module, cfgname, workers=workers, timeout=timeout, extra_args=extra)
    ok = ('Model checking completed. No error has been found' in txt) or (mode == 'simulate' and rc in (0,) ) or \
         (mode == 'simulate' and 'The number of states generated' in txt)
    if not ok:
        tail = txt[-3000:]
        raise Inconclusive('model %s: TLC did not complete cleanly (rc=%s)\n%s' % (name, rc, tail))
    n = 0
    with open(base + '.scripts.ndjson.tmp', 'w') as fo:
        for line in txt.splitlines():
            if line.startswith('"{'):
                try:
                    s = json.loads(line)  # a TLC string literal is a JSON string literal here
                except Exception:
                    continue
                outs = [s] if post is None else [json.dumps(o) for o in post(json.loads(s))]
                for o in outs:
                    fo.write(o + '\n')
                    n += 1
    os.replace(base + '.scripts.ndjson.tmp', base + '.scripts.ndjson')
    stats['scripts'] = n
    stats['mode'] = mode
    m = re.search(r'The depth of the complete state graph search is (\d+)', txt)
    if m:
        stats['depth'] = int(m.group(1))
    json.dump(stats, open(base + '.stats.json', 'w'))
    shutil.rmtree(d, ignore_errors=True)
    return {'scripts': base + '.scripts.ndjson', 'stats': stats, 'cached': False}


# ------------------------------------------------------------------------------------------------
# trace production + validation

def run_cmd(args, timeout=3600, env=None):
    t0 = time.time()
    try:
        p = subprocess.run(args, capture_output=True, text=True, timeout=timeout, env=env)
    except subprocess.TimeoutExpired:
        raise Inconclusive('timeout: ' + ' '.join(args[:6]))
    return p.returncode, p.stdout, p.stderr, time.time() - t0


class RaceDetected(Exception):
    pass


class ProducerCrash(Exception):
    """The producer process died (fatal runtime error, signal): carries what is needed to decide whether that is a
    reproducible fact about the library (VIOLATION) or not (inconclusive)."""
    def __init__(self, rc, args, stderr, inflight):
        Exception.__init__(self, 'producer crashed rc=%s: %s\n%s' % (rc, ' '.join(args), stderr[-2500:]))
        self.rc, self.args_, self.stderr, self.inflight = rc, args, stderr, inflight


def produce(d, shard, producer_args, race=False, env_extra=None):
    """Runs one producer (drive/replay/...) writing trace-<shard>.ndjson; returns (trace path, cover dict)."""
    binp, _ = build_harness(race=race)
    tr = os.path.join(d, 'trace-%s.ndjson' % shard)
    cov = os.path.join(d, 'cover-%s.json' % shard)
    args = [binp] + producer_args + ['-out', tr, '-cover', cov]
    env = dict(os.environ)
    env.update(env_extra or {})
    if race:
        env['GORACE'] = 'halt_on_error=1 exitcode=66'
    rc, so, se, dt = run_cmd(args, env=env)
    if rc == 66 and 'DATA RACE' in se:
        raise RaceDetected(se[-6000:])
    if rc != 0:
        # a crash of the driver process is itself an observation (e.g. a fatal runtime error caused by memory corruption
        # inside the library): the caller re-runs the trace that was in flight to see whether it is reproducible
        infl = None
        try:
            infl = json.loads(open(tr + '.inflight').read().strip())
        except Exception:
            pass
        raise ProducerCrash(rc, args, se, infl)
    cover = json.load(open(cov)) if os.path.exists(cov) else {}
    return tr, cover


def validate(d, shard, trace_path, module='TraceSet.tla', cfg='TraceSet.cfg', timeout=1800):
    """TLC trace validation; returns (violations list, stats)."""
    viol = os.path.join(d, 'viol-%s.ndjson' % shard)
    if os.path.exists(viol):
        os.remove(viol)
    n_events = sum(1 for _ in open(trace_path))
    if n_events == 0:
        return [], {'events': 0, 'generated': 0, 'distinct': 0}
    rc, txt, stats = run_tlc(d, module, cfg, env_extra={'TRACE_FILE': trace_path, 'VIOL_FILE': viol},
                             workers=1, timeout=timeout, out_name='tlc-%s.out' % shard)
    stats['events'] = n_events
    if 'Model checking completed. No error has been found' not in txt:
        raise Inconclusive('trace validation did not complete (rc=%s) for %s:\n%s' % (rc, trace_path, txt[-3000:]))
    if stats.get('distinct') != n_events + 1:
        raise Inconclusive('trace validation consumed %s states for %d events' % (stats.get('distinct'), n_events))
    vs = []
    if os.path.exists(viol):
        for line in open(viol):
            line = line.strip()
            if line:
                vs.append(json.loads(line))
    return vs, stats


def parallel(jobs, fn, nproc=None):
    """Runs fn(job) for each job in a thread pool (the work is in subprocesses)."""
    from concurrent.futures import ThreadPoolExecutor
    nproc = nproc or max(1, NCPU - 2)
    with ThreadPoolExecutor(max_workers=nproc) as ex:
        return list(ex.map(fn, jobs))


# ------------------------------------------------------------------------------------------------
# known findings

def load_known():
    p = os.path.join(VERIF, 'known_findings.json')
    if not os.path.exists(p):
        return []
    return json.load(open(p))


def match_known(prop, sig, known):
    for k in known:
        if k.get('status') != 'open' or k.get('property') != prop:
            continue
        ks = k.get('signature', {})
        if all(sig.get(f) == v for f, v in ks.items()):
            return k
    return None


def write_evidence(prop, tier, seed, level, coverage, wall, violations, assumptions):
    os.makedirs(EVIDENCE, exist_ok=True)
    ev = {'property_id': prop, 'tier': tier, 'seed': seed, 'level': level, 'coverage': coverage,
          'assumptions': assumptions, 'wall_s': round(wall, 1), 'violations': violations}
    json.dump(ev, open(os.path.join(EVIDENCE, prop + '.json'), 'w'), indent=1)


# ------------------------------------------------------------------------------------------------
# gate traces of the parallel pipelines (C12): TraceParAgg.tla, accepted <=> invariant NotFinished violated

def validate_gate(d, tag, trace_path, cfg_text, timeout=600):
    """Returns (accepted, highwater, stats)."""
    cfgname = 'gate-%s.cfg' % tag
    open(os.path.join(d, cfgname), 'w').write(cfg_text)
    n_events = sum(1 for _ in open(trace_path))
    rc, txt, stats = run_tlc(d, 'MCTraceParAgg.tla', cfgname,
                             env_extra={'TRACE_FILE': trace_path, 'JAVA_TOOL_OPTIONS': '-Dtlc2.tool.queue.IStateQueue=StateDeque'},
                             workers=1, timeout=timeout, extra_args=['-noGenerateSpecTE'], out_name='tlc-gate-%s.out' % tag)
    stats['events'] = n_events
    m = re.search(r'"HIGHWATER", (\d+)', txt)
    hw = int(m.group(1)) if m else -1
    if 'Invariant NotFinished is violated' in txt:
        return True, n_events, stats
    if 'Invariant SafeAlong is violated' in txt:
        return False, hw, dict(stats, safety='SafeAlong violated')
    if 'Model checking completed. No error has been found' in txt:
        return False, hw, stats
    raise Inconclusive('gate trace validation did not complete (rc=%s):\n%s' % (rc, txt[-2500:]))
