package main

// Independent reading of a 32-bit bitmap through the verif hook: elements as an interval set and the
// representation facts the properties name (C09/C14/C07/C08), computed by our own walk.

import (
	"hash/fnv"
	"math/bits"
	"unsafe"

	"github.com/RoaringBitmap/roaring/v2"
)

// ChunkRec is what the trace carries about one chunk.
type ChunkRec struct {
	K     int     `json:"k"` // key
	T     int     `json:"t"` // 0 array, 1 bitmap, 2 run, 9 other/nil
	C     int     `json:"c"` // cached cardinality (array: len; bitmap: cached field; run: -1)
	N     int     `json:"n"` // number of elements counted by our walk
	R     int     `json:"r"` // number of runs stored (run chunks) else -1
	S     bool    `json:"s"` // shared (needCopyOnWrite) flag
	O     int     `json:"o"` // object id (first-seen renumbering of the chunk's payload address)
	M     int     `json:"m"` // 0 = heap, i>0 = payload lies inside registered caller buffer i
	V     bool    `json:"v"` // payload order is valid (array strictly increasing / runs sorted, disjoint, non-adjacent, within 0..65535)
	H     uint64  `json:"-"` // payload hash
	First uint64  `json:"-"` // some element of the chunk (probe target)
	Ptr   uintptr `json:"-"`
}

type View struct {
	Set    iset
	Chunks []ChunkRec
	TblOK  bool // the three parallel tables have equal length
}

type objTable struct {
	ids  map[uintptr]int
	bufs []bufRange
}
type bufRange struct{ lo, hi uintptr }

func newObjTable() *objTable { return &objTable{ids: map[uintptr]int{}} }

func (t *objTable) id(p uintptr) int {
	if p == 0 {
		return 0
	}
	if v, ok := t.ids[p]; ok {
		return v
	}
	v := len(t.ids) + 1
	t.ids[p] = v
	return v
}

func (t *objTable) registerBuf(b []byte) int {
	if len(b) == 0 {
		t.bufs = append(t.bufs, bufRange{0, 0})
		return len(t.bufs)
	}
	p := uintptr(unsafe.Pointer(&b[0]))
	t.bufs = append(t.bufs, bufRange{p, p + uintptr(len(b))})
	return len(t.bufs)
}

func (t *objTable) mem(p uintptr) int {
	for i, b := range t.bufs {
		if p >= b.lo && p < b.hi {
			return i + 1
		}
	}
	return 0
}

func view32(rb *roaring.Bitmap, ot *objTable) View {
	var v View
	kl, cl, fl := roaring.VerifTableLens(rb)
	v.TblOK = kl == cl && kl == fl
	var spans []span
	for _, c := range roaring.VerifChunks(rb) {
		rec := ChunkRec{K: int(c.Key), C: c.Card, R: c.NRuns, S: c.Shared, V: true}
		base := uint64(c.Key) << 16
		h := fnv.New64a()
		switch c.Kind {
		case "array":
			rec.T = 0
			rec.N = len(c.Array)
			for i, x := range c.Array {
				if i > 0 && c.Array[i-1] >= x {
					rec.V = false
				}
				spans = append(spans, span{base + uint64(x), base + uint64(x)})
			}
			if len(c.Array) > 0 {
				h.Write(unsafe.Slice((*byte)(unsafe.Pointer(&c.Array[0])), 2*len(c.Array)))
			}
		case "bitmap":
			rec.T = 1
			if len(c.Words) != 1024 {
				rec.V = false
			}
			for wi, w := range c.Words {
				rec.N += bits.OnesCount64(w)
				for w != 0 {
					tz := bits.TrailingZeros64(w)
					// run of ones starting at tz
					ones := bits.TrailingZeros64(^(w >> uint(tz)))
					lo := base + uint64(wi*64+tz)
					spans = append(spans, span{lo, lo + uint64(ones) - 1})
					if tz+ones >= 64 {
						break
					}
					w &^= (uint64(1)<<uint(tz+ones) - 1)
				}
			}
			if len(c.Words) > 0 {
				h.Write(unsafe.Slice((*byte)(unsafe.Pointer(&c.Words[0])), 8*len(c.Words)))
			}
		case "run":
			rec.T = 2
			prevEnd := -2
			for i := 0; i+1 < len(c.Runs); i += 2 {
				st, ln := int(c.Runs[i]), int(c.Runs[i+1])
				if st+ln > 65535 {
					rec.V = false
					ln = 65535 - st
				}
				if st <= prevEnd+1 {
					rec.V = false
				}
				prevEnd = st + ln
				rec.N += ln + 1
				spans = append(spans, span{base + uint64(st), base + uint64(st+ln)})
			}
			if len(c.Runs) > 0 {
				h.Write(unsafe.Slice((*byte)(unsafe.Pointer(&c.Runs[0])), 2*len(c.Runs)))
			}
		default:
			rec.T = 9
			rec.V = false
		}
		rec.H = h.Sum64()
		rec.Ptr = c.DataPtr
		switch {
		case c.Kind == "array" && len(c.Array) > 0:
			rec.First = base + uint64(c.Array[0])
		case c.Kind == "run" && len(c.Runs) > 0:
			rec.First = base + uint64(c.Runs[0])
		case c.Kind == "bitmap":
			for wi, w := range c.Words {
				if w != 0 {
					rec.First = base + uint64(wi*64+bits.TrailingZeros64(w))
					break
				}
			}
		}
		if ot != nil {
			rec.O = ot.id(c.DataPtr)
			rec.M = ot.mem(c.DataPtr)
		}
		v.Chunks = append(v.Chunks, rec)
	}
	v.Set = normalize(spans)
	return v
}

func uintptrOf(b []byte) uintptr { return uintptr(unsafe.Pointer(unsafe.SliceData(b))) }
