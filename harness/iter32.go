package main

// Iteration protocols (C04, and the iterator clauses of C17): iterators are driven step by step
// (ItNew / ItTake / ItPeek / ItAdvance) and by one-shot consumers (IterCb, Ranges); each step logs a
// summary obtained by COUNTING the produced values against the raw view, and RoaringIter.tla says what
// the summary must be.

import (
	"fmt"
	"github.com/RoaringBitmap/roaring/v2"
	"github.com/RoaringBitmap/roaring/v2/roaring64"
	"os"
)

// uniform view of the forward / reverse / many iterators of both widths
type stepIt interface {
	hasNext() bool
	next() uint64
}
type peekIt interface {
	stepIt
	peek() uint64
	advance(uint64)
}

type p32 struct{ it roaring.IntPeekable }

func (p p32) hasNext() bool    { return p.it.HasNext() }
func (p p32) next() uint64     { return uint64(p.it.Next()) }
func (p p32) peek() uint64     { return uint64(p.it.PeekNext()) }
func (p p32) advance(m uint64) { p.it.AdvanceIfNeeded(uint32(m)) }

type r32 struct{ it roaring.IntIterable }

func (p r32) hasNext() bool { return p.it.HasNext() }
func (p r32) next() uint64  { return uint64(p.it.Next()) }

type p64 struct{ it roaring64.IntPeekable64 }

func (p p64) hasNext() bool    { return p.it.HasNext() }
func (p p64) next() uint64     { return p.it.Next() }
func (p p64) peek() uint64     { return p.it.PeekNext() }
func (p p64) advance(m uint64) { p.it.AdvanceIfNeeded(m) }

type r64 struct{ it roaring64.IntIterable64 }

func (p r64) hasNext() bool { return p.it.HasNext() }
func (p r64) next() uint64  { return p.it.Next() }

// manyAdapter turns a ManyIterator into a stepIt with the given buffer-length cycle.
type manyAdapter struct {
	m32    roaring.ManyIntIterable
	m64    roaring64.ManyIntIterable64
	sizes  []int
	call   int
	buf    []uint64
	done   bool
	zeroOK bool   // a zero-length buffer returned 0
	hs     uint64 // != 0: use NextMany64 with these high bits
	over   bool   // NextMany returned more than the buffer length
}

func (m *manyAdapter) fill() {
	for len(m.buf) == 0 && !m.done {
		sz := m.sizes[m.call%len(m.sizes)]
		m.call++
		var n int
		if m.m32 != nil && m.hs != 0 {
			b := make([]uint64, sz)
			n = m.m32.NextMany64(m.hs, b)
			if n > sz {
				m.over = true
				n = sz
			}
			for _, v := range b[:n] {
				if v>>32 != m.hs>>32 {
					m.over = true // the high bits are not the ones asked for
				}
				m.buf = append(m.buf, v&0xFFFFFFFF)
			}
		} else if m.m32 != nil {
			b := make([]uint32, sz)
			n = m.m32.NextMany(b)
			if n > sz {
				m.over = true
				n = sz
			}
			for _, v := range b[:n] {
				m.buf = append(m.buf, uint64(v))
			}
		} else {
			b := make([]uint64, sz)
			n = m.m64.NextMany(b)
			if n > sz {
				m.over = true
				n = sz
			}
			m.buf = append(m.buf, b[:n]...)
		}
		if sz == 0 {
			if n != 0 {
				m.zeroOK = false
			}
			continue
		}
		if n == 0 {
			m.done = true
		}
	}
}
func (m *manyAdapter) hasNext() bool { m.fill(); return len(m.buf) > 0 }
func (m *manyAdapter) next() uint64  { m.fill(); v := m.buf[0]; m.buf = m.buf[1:]; return v }

type iterState struct {
	kind    string // fwd | rev | many | unset
	slot    int
	it      stepIt
	pk      peekIt       // non-nil for fwd / unset
	many    *manyAdapter // non-nil for many
	pending []uint64     // one value of look-ahead for iterators without PeekNext
	set     iset         // the set being enumerated (raw view at creation; complement window for unset)
}

func (s *iterState) has() bool {
	if len(s.pending) > 0 {
		return true
	}
	return s.it.hasNext()
}
func (s *iterState) look() uint64 { // next value without consuming (uses PeekNext when the API has it)
	if len(s.pending) > 0 {
		return s.pending[0]
	}
	if s.pk != nil {
		return s.pk.peek()
	}
	v := s.it.next()
	s.pending = append(s.pending, v)
	return v
}
func (s *iterState) take() uint64 {
	if len(s.pending) > 0 {
		v := s.pending[0]
		s.pending = s.pending[1:]
		return v
	}
	return s.it.next()
}

// OutSummary: what a run of produced values looks like, by counting only.
type OutSummary struct {
	N       Num      `json:"n"`       // number of values produced
	Dir     string   `json:"dir"`     // none | one | asc | desc | mixed
	InS     bool     `json:"ins"`     // every value is an element of the enumerated set (raw view)
	Arr     []int    `json:"arr"`     // atoms every element of which was produced
	Partial []int    `json:"partial"` // atoms produced in part
	First   Landmark `json:"first"`   // landmark of the first value (a = 0 when nothing was produced)
	HasNext bool     `json:"hasnext"` // HasNext after the run
	Aux     bool     `json:"auxok"`   // PeekNext agreed with the following Next at every sampled point, buffers respected
}

func (e *Exec) summarize(vals []uint64, set iset) OutSummary {
	o := OutSummary{N: numFromU64(uint64(len(vals))), Dir: "none", InS: true, Arr: []int{}, Partial: []int{}, Aux: true}
	if len(vals) == 0 {
		return o
	}
	o.First = e.u.landmark(vals[0])
	asc, desc := true, true
	for i, v := range vals {
		if i > 0 {
			if vals[i-1] >= v {
				asc = false
			}
			if vals[i-1] <= v {
				desc = false
			}
		}
		if !set.contains(v) {
			o.InS = false
		}
	}
	switch {
	case len(vals) == 1:
		o.Dir = "one"
	case asc:
		o.Dir = "asc"
	case desc:
		o.Dir = "desc"
	default:
		o.Dir = "mixed"
	}
	// which atoms were covered (distinct values only)
	cov := make([]uint64, len(e.u.Atoms)+1)
	seen := isetOfValues(append([]uint64(nil), vals...))
	for _, sp := range seen {
		// split the span over segments
		for v := sp.lo; ; {
			lm := e.u.landmark(v)
			a := e.u.atom(lm.A)
			// extent of the segment of atom a containing v
			segHi := sp.hi
			for _, asp := range a.Set {
				if asp.lo <= v && v <= asp.hi {
					if asp.hi < segHi {
						segHi = asp.hi
					}
					break
				}
			}
			cov[lm.A] += segHi - v + 1
			if segHi == sp.hi {
				break
			}
			v = segHi + 1
		}
	}
	for id := 1; id <= len(e.u.Atoms); id++ {
		if cov[id] == 0 {
			continue
		}
		if numFromU64(cov[id]) == e.u.atom(id).W {
			o.Arr = append(o.Arr, id)
		} else {
			o.Partial = append(o.Partial, id)
		}
	}
	return o
}

func (e *Exec) rawSet(slot int) iset {
	if e.mode64 {
		s, _ := view64(e.slots64[slot])
		return s
	}
	return view32(e.slots[slot], nil).Set
}

var manySizes = [][]int{{1}, {2}, {3}, {0, 1}, {5}, {7, 0, 3}, {64}, {4096}, {65536}, {1000, 1, 0, 17}}

// reinitSteps: how far a recycled iterator is driven on its first bitmap before it is re-initialised: a few steps, or to
// the very end (its internal positions then point past every bucket / chunk of the first bitmap).
func (e *Exec) reinitSteps() int {
	if e.rng.Intn(2) == 0 {
		return 1 + e.rng.Intn(4)
	}
	return 1 << 22
}

func (e *Exec) doIter(c *Call, ev *Event) bool {
	u := e.u
	cellOf := func(v uint64) int { return u.atom(u.landmark(v).A).Cell }
	switch c.Op {
	case "ItNew": // c.A = iterator id, c.X = slot, c.Rcp = kind, window C0..C1 for unset, J = buffer pattern
		st := &iterState{kind: c.Rcp, slot: c.X, set: e.rawSet(c.X)}
		switch c.Rcp {
		case "fwd":
			if e.mode64 && e.rng.Intn(3) == 0 {
				// a caller-owned iterator value, (re)initialised: first on another bitmap, partly or fully consumed, then on this one
				it := new(roaring64.IntIterator64)
				if e.rng.Intn(3) != 0 {
					it.Initialize(e.bm64(1 + e.rng.Intn(NSLOT)))
					for k, n := 0, e.reinitSteps(); k < n && it.HasNext(); k++ {
						it.Next()
					}
				}
				it.Initialize(e.bm64(c.X))
				p := p64{it}
				st.it, st.pk = p, p
			} else if e.mode64 {
				p := p64{e.bm64(c.X).Iterator()}
				st.it, st.pk = p, p
			} else if e.rng.Intn(3) == 0 {
				// a caller-owned iterator value, (re)initialised: first on another bitmap, partly consumed, then on this one
				it := new(roaring.IntIterator)
				if e.rng.Intn(2) == 0 {
					it.Initialize(e.bm(1 + e.rng.Intn(NSLOT)))
					for k, n := 0, e.reinitSteps(); k < n && it.HasNext(); k++ {
						it.Next()
					}
				}
				it.Initialize(e.bm(c.X))
				p := p32{it}
				st.it, st.pk = p, p
			} else {
				p := p32{e.bm(c.X).Iterator()}
				st.it, st.pk = p, p
			}
		case "rev":
			if e.mode64 && e.rng.Intn(3) == 0 {
				it := new(roaring64.IntReverseIterator64)
				if e.rng.Intn(3) != 0 {
					it.Initialize(e.bm64(1 + e.rng.Intn(NSLOT)))
					for k, n := 0, e.reinitSteps(); k < n && it.HasNext(); k++ {
						it.Next()
					}
				}
				it.Initialize(e.bm64(c.X))
				st.it = r64{it}
			} else if e.mode64 {
				st.it = r64{e.bm64(c.X).ReverseIterator()}
			} else if e.rng.Intn(3) == 0 {
				it := new(roaring.IntReverseIterator)
				if e.rng.Intn(2) == 0 {
					it.Initialize(e.bm(1 + e.rng.Intn(NSLOT)))
					for k, n := 0, e.reinitSteps(); k < n && it.HasNext(); k++ {
						it.Next()
					}
				}
				it.Initialize(e.bm(c.X))
				st.it = r32{it}
			} else {
				st.it = r32{e.bm(c.X).ReverseIterator()}
			}
		case "many":
			m := &manyAdapter{sizes: manySizes[c.J%len(manySizes)], zeroOK: true}
			if e.mode64 && e.rng.Intn(3) == 0 {
				it := new(roaring64.ManyIntIterator64)
				if e.rng.Intn(3) != 0 {
					it.Initialize(e.bm64(1 + e.rng.Intn(NSLOT)))
					buf := make([]uint64, 1+e.rng.Intn(64))
					for k, n := 0, e.reinitSteps(); k < n; k++ {
						if it.NextMany(buf) == 0 {
							break
						}
					}
				}
				it.Initialize(e.bm64(c.X))
				m.m64 = it
			} else if e.mode64 {
				m.m64 = e.bm64(c.X).ManyIterator()
			} else if e.rng.Intn(3) == 0 {
				it := new(roaring.ManyIntIterator)
				if e.rng.Intn(2) == 0 {
					it.Initialize(e.bm(1 + e.rng.Intn(NSLOT)))
					buf := make([]uint32, 1+e.rng.Intn(64))
					for k, n := 0, e.reinitSteps(); k < n; k++ {
						if it.NextMany(buf) == 0 {
							break
						}
					}
				}
				it.Initialize(e.bm(c.X))
				m.m32 = it
				if e.rng.Intn(2) == 0 { // NextMany64: 64-bit output, the given high bits OR-ed in
					m.hs = uint64(e.rng.Uint32())<<32 | 1<<63
				}
			} else {
				m.m32 = e.bm(c.X).ManyIterator()
			}
			st.it, st.many = m, m
		case "unset":
			if e.mode64 {
				ev.Skip = true
				return true
			}
			a, b := e.rangeOf(c.C0, c.C1)
			if a > b {
				ev.Skip = true
				return true
			}
			p := p32{e.bm(c.X).UnsetIterator(a, b)}
			st.it, st.pk = p, p
			if a < b {
				st.set = st.set.complementIn(a, b-1)
			} else {
				st.set = nil
			}
		default:
			panic("unknown iterator kind " + c.Rcp)
		}
		if !st.set.smallerThan(1 << 22) { // enumerations above ~4M values are not driven
			ev.Skip = true
			return true
		}
		e.iters[c.A] = st
		e.obs = append(e.obs, c.X)
		return true
	case "ItTake": // consume the next group: the remaining values of the next non-empty cell
		st := e.iters[c.A]
		if st == nil {
			ev.Skip = true
			return true
		}
		var vals []uint64
		aux := true
		if st.has() {
			first := st.look()
			cell := cellOf(first)
			for st.has() && len(vals) < 1<<23 {
				v := st.look()
				if cellOf(v) != cell {
					break
				}
				got := st.take()
				if got != v {
					aux = false // PeekNext (or the look-ahead) disagreed with Next
				}
				vals = append(vals, got)
			}
		}
		o := e.summarize(vals, st.set)
		o.HasNext = st.has()
		o.Aux = aux
		if st.many != nil {
			o.Aux = o.Aux && st.many.zeroOK && !st.many.over
		}
		ev.Ret = o
		e.obs = append(e.obs, st.slot)
		return true
	case "ItPeek":
		st := e.iters[c.A]
		if st == nil || st.pk == nil || !st.has() {
			ev.Skip = true
			return true
		}
		ev.Ret = u.landmark(st.pk.peek())
		e.obs = append(e.obs, st.slot)
		return true
	case "ItAdvance": // AdvanceIfNeeded(first or last integer of cell C0)
		st := e.iters[c.A]
		if st == nil || st.pk == nil {
			ev.Skip = true
			return true
		}
		t := u.CellLo[c.C0-1]
		if c.Side == 1 {
			t = u.cellHi(c.C0)
		}
		st.pk.advance(t)
		ev.Ret = st.has()
		e.obs = append(e.obs, st.slot)
		return true
	case "IterCb": // one-shot consumers with early stop: c.Rcp = Iterate|Values|Backward|Unset, stop once a value beyond cell C0 shows up
		if e.mode64 && (c.Rcp == "Iterate" || c.Rcp == "Unset") {
			ev.Skip = true
			return true
		}
		set := e.rawSet(c.X)
		var vals []uint64
		stopped := false
		after := 0
		accept := func(v uint64) bool {
			if stopped {
				after++
				return false
			}
			cl := cellOf(v)
			if (c.Rcp == "Backward" && cl < c.C0) || (c.Rcp != "Backward" && cl > c.C0) {
				stopped = true
				return false
			}
			vals = append(vals, v)
			return len(vals) < 1<<23
		}
		switch c.Rcp {
		case "Iterate":
			e.bm(c.X).Iterate(func(x uint32) bool { return accept(uint64(x)) })
		case "Values":
			if e.mode64 {
				for v := range roaring64.Values(e.bm64(c.X)) {
					if !accept(v) {
						break
					}
				}
			} else {
				for v := range roaring.Values(e.bm(c.X)) {
					if !accept(uint64(v)) {
						break
					}
				}
			}
		case "Backward":
			if e.mode64 {
				for v := range roaring64.Backward(e.bm64(c.X)) {
					if !accept(v) {
						break
					}
				}
			} else {
				for v := range roaring.Backward(e.bm(c.X)) {
					if !accept(uint64(v)) {
						break
					}
				}
			}
		case "Unset": // window = whole cells C1..(ncell), inclusive ends
			a, b := e.rangeOf(c.C1, u.ncell()+1)
			if a >= b {
				ev.Skip = true
				return true
			}
			set = set.complementIn(a, b-1)
			for v := range roaring.Unset(e.bm(c.X), uint32(a), uint32(b-1)) {
				if !accept(uint64(v)) {
					break
				}
			}
		}
		if !set.smallerThan(1 << 22) {
			ev.Skip = true
			return true
		}
		o := e.summarize(vals, set)
		if os.Getenv("RVERIF_DEBUG") != "" && !o.InS {
			for _, v := range vals {
				if !set.contains(v) {
					fmt.Fprintf(os.Stderr, "IterCb %s: produced %d (0x%x) which is not in the enumerated set; nvals=%d first=%d last=%d\n", c.Rcp, v, v, len(vals), vals[0], vals[len(vals)-1])
					break
				}
			}
			if !e.mode64 {
				for _, ch := range view32(e.bm(c.X), nil).Chunks {
					fmt.Fprintf(os.Stderr, "  chunk key=0x%x kind=%d n=%d first=%d\n", ch.K, ch.T, ch.N, ch.First)
				}
			}
		}
		o.Aux = after == 0
		ev.Ret = o
		e.obs = append(e.obs, c.X)
		return true
	case "Ranges": // Ranges(): maximal, disjoint, non-adjacent half-open intervals; stop after V ranges when V > 0
		if e.mode64 {
			ev.Skip = true
			return true
		}
		set := e.rawSet(c.X)
		var sp []span
		ok := true
		after := 0
		stopped := false
		for s, en := range e.bm(c.X).Ranges() {
			if stopped {
				after++
				break
			}
			if en <= uint64(s) || en > 1<<32 {
				ok = false
				continue
			}
			if n := len(sp); n > 0 && uint64(s) <= sp[n-1].hi+1 { // must be sorted, disjoint and NOT adjacent
				ok = false
			}
			sp = append(sp, span{uint64(s), en - 1})
			if c.V > 0 && len(sp) >= c.V {
				stopped = true
				break
			}
		}
		got := normalize(append([]span(nil), sp...))
		covered := got.count()
		inS := got.intersect(set).count() == covered
		var below Num
		maximalEnd := true
		if len(sp) > 0 {
			last := sp[len(sp)-1].hi
			below = clip(set, 0, last).count()
			if last < u.Top && set.contains(last+1) {
				maximalEnd = false // the last range stops although the next integer is present
			}
		}
		arr, _ := e.u.project(got) // a stopped enumeration covers some atoms only in part: not an anomaly here
		if arr == nil {
			arr = []int{}
		}
		ev.Ret = map[string]any{"arr": arr, "ok": ok && after == 0 && maximalEnd, "ins": inS, "covered": covered, "below": below, "nr": len(sp), "stop": c.V}
		e.obs = append(e.obs, c.X)
		return true
	}
	return false
}
