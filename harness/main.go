package main

import (
	"bufio"
	"encoding/json"
	"flag"
	"fmt"
	"math/rand"
	"os"
	"sort"
	"strings"
)

func jsonMarshal(v any) ([]byte, error)   { return json.Marshal(v) }
func jsonUnmarshal(b []byte, v any) error { return json.Unmarshal(b, v) }

func usage() {
	fmt.Fprintln(os.Stderr, "usage: rverif drive|replay|... [flags]")
	os.Exit(2)
}

// Flight recorder: the call about to be executed is written (in place, fixed size) to <out>.inflight, so that a producer
// killed by a fatal runtime error (memory corruption inside the library cannot be recovered like a panic) still tells the
// runner which trace and call it died in.
var inflightF *os.File

func markInflight(tr, i int, op string) {
	if inflightF == nil {
		return
	}
	rec := fmt.Sprintf("{\"tr\":%d,\"i\":%d,\"op\":%q}", tr, i, op)
	buf := make([]byte, 160)
	for k := range buf {
		buf[k] = ' '
	}
	copy(buf, rec)
	inflightF.WriteAt(buf, 0)
}

func main() {
	if len(os.Args) < 2 {
		usage()
	}
	for k := 2; k+1 < len(os.Args); k++ {
		if os.Args[k] == "-out" && os.Args[k+1] != "" {
			inflightF, _ = os.Create(os.Args[k+1] + ".inflight")
		}
	}
	switch os.Args[1] {
	case "drive":
		cmdDrive(os.Args[2:])
	case "replay":
		cmdReplay(os.Args[2:])
	default:
		if !extraCommand(os.Args[1], os.Args[2:]) {
			usage()
		}
	}
}

type coverOut struct {
	Ops    map[string]int `json:"ops"`
	Traces int            `json:"traces"`
	Events int            `json:"events"`
	Kinds  map[string]int `json:"kinds,omitempty"`
}

func writeCover(path string, c coverOut) {
	if path == "" {
		return
	}
	b, _ := json.MarshalIndent(c, "", " ")
	os.WriteFile(path, b, 0o644)
}

// cmdDrive: random universes, random calls (C->S producer).
func cmdDrive(args []string) {
	fs := flag.NewFlagSet("drive", flag.ExitOnError)
	prof := fs.String("profile", "all", "op-weight profile")
	seed := fs.Int64("seed", 1, "seed")
	traces := fs.Int("traces", 10, "number of traces")
	steps := fs.Int("steps", 40, "calls per trace")
	out := fs.String("out", "", "ndjson output")
	cover := fs.String("cover", "", "coverage json output")
	first := fs.Int("first", 1, "id of the first trace")
	only := fs.Int("only", 0, "produce only this trace id (confirm mode)")
	maxAtoms := fs.Int("maxatoms", 40, "atom cap")
	bits := fs.Int("bits", 32, "universe width: 32 | 64")
	mk := fs.Int("minkeys", 1, "minimum number of chunk keys of the random universes")
	cowBias := fs.Bool("cow", false, "build most bitmaps with copy-on-write recipes")
	spread := fs.Int("spread", 0, "generators may spread over this many consecutive chunk keys")
	fs.Parse(args)
	minKeys = *mk
	spreadKeys = *spread
	if *cowBias {
		recipes = append(recipes, "Rc", "Rk", "Mc", "Mk", "Rok", "Rc", "Rk", "Mk", "Rok", "Rck", "ak", "Ak", "Rc", "Rk")
	}
	f, err := os.Create(*out)
	if err != nil {
		panic(err)
	}
	w := bufio.NewWriterSize(f, 1<<20)
	cv := coverOut{Ops: map[string]int{}}
	for t := 0; t < *traces; t++ {
		id := *first + t
		if *only != 0 && id != *only {
			continue
		}
		r := rand.New(rand.NewSource(*seed*1000003 + int64(id)))
		var u *Universe
		var gens []iset
		if *prof == "burst" {
			driveBurst(r, w, id, *maxAtoms, &cv)
			continue
		}
		if *prof == "kernel" {
			driveKernel(r, w, id, &cv)
			continue
		}
		if *prof == "offsetkernel" {
			driveOffsetKernel(r, w, id, &cv)
			continue
		}
		if *prof == "cowkeys" {
			driveCowKeys(r, w, id, *bits, *maxAtoms, &cv)
			continue
		}
		if *prof == "aggkernel" {
			driveAggKernel(r, w, id, &cv)
			continue
		}
		if *prof == "aggsparse" {
			driveAggSparse(r, w, id, *bits, *maxAtoms, &cv)
			continue
		}
		if r.Intn(6) == 0 {
			u, gens = sparseKeysUniverse(r, *bits, *maxAtoms)
		} else if *bits == 64 {
			u, gens = randUniverse64(r, *maxAtoms)
		} else if r.Intn(2) == 0 {
			u, gens = edgeUniverse32(r, *maxAtoms)
		} else {
			u, gens = randUniverse32(r, *maxAtoms)
		}
		var genAtoms [][]int
		for _, g := range gens {
			a, bad := u.project(g)
			if bad != "" {
				panic("generator is not a union of atoms: " + bad)
			}
			genAtoms = append(genAtoms, a)
		}
		e := newExec(u, w, id, r.Int63())
		g := newGen(r, u, profile(*prof), genAtoms)
		e.begin()
		// start from the generators, built with random recipes
		for i, ga := range genAtoms {
			if i+1 > NSLOT {
				break
			}
			rc := recipes
			if *bits == 64 {
				rc = recipes64
			}
			e.run(Call{Op: "Build", Dst: i + 1, As: ga, Rcp: pick(r, rc)})
		}
		for s := 0; s < *steps; s++ {
			c := g.next(e)
			e.run(c)
			if (c.Op == "DenseRT" || c.Op == "BitSetRT" || c.Op == "FlipS" || c.Op == "AddOffset") && c.Dst > 0 && *bits != 64 && r.Intn(2) == 0 {
				// what a freshly derived bitmap (possibly aliasing caller memory) looks like on the wire
				e.run(Call{Op: "Ser", X: c.Dst, V: r.Intn(4)})
			}
		}
		cv.Traces++
		cv.Events += e.events
		for k, v := range e.cover {
			cv.Ops[k] += v
		}
	}
	w.Flush()
	f.Close()
	writeCover(*cover, cv)
}

// Script is one TLC-generated behaviour over an abstract structure.
type Script struct {
	St     string     `json:"st"`
	Calls  []Call     `json:"calls"`
	Struct *Structure `json:"struct,omitempty"` // inline structure (overrides St)
	Kind   string     `json:"kind,omitempty"`   // forced concretisation kind
	Base   uint64     `json:"base,omitempty"`   // kind "chunks": key of the first cell
}

var structures = map[string]Structure{}
var concBase uint64

func loadStructures(path string) {
	b, err := os.ReadFile(path)
	if err != nil {
		panic(err)
	}
	if err := json.Unmarshal(b, &structures); err != nil {
		panic(err)
	}
}

func mapCall(c Call, cc *Concretisation) Call {
	if c.A > 0 {
		c.A = cc.AtomMap[c.A-1]
	}
	if len(c.As) > 0 {
		as := make([]int, len(c.As))
		for i, a := range c.As {
			as[i] = cc.AtomMap[a-1]
		}
		if c.Op == "Build" {
			sort.Ints(as)
		}
		c.As = as
	}
	if c.C0 > 0 {
		c.C0 = cc.CellMap[c.C0-1]
	}
	if c.C1 > 0 {
		c.C1 = cc.CellMap[c.C1-1]
	}
	return c
}

// cmdReplay: TLC scripts x concretisation catalogue (S->C).
func cmdReplay(args []string) {
	fs := flag.NewFlagSet("replay", flag.ExitOnError)
	scripts := fs.String("scripts", "", "ndjson scripts produced by TLC")
	structs := fs.String("structures", "", "json: structure name -> {percell, point}")
	kinds := fs.String("kinds", "tiny,array,threshold,bitmap,run,mixed", "concretisation kinds")
	seed := fs.Int64("seed", 1, "seed")
	out := fs.String("out", "", "ndjson output")
	cover := fs.String("cover", "", "coverage json output")
	first := fs.Int("first", 1, "id of the first trace")
	only := fs.Int("only", 0, "produce only this trace id (confirm mode)")
	sample := fs.Float64("sample", 1.0, "fraction of (script,kind) pairs to run")
	rcps := fs.String("recipes", "", "comma list of Build recipes to cycle through (default: from script or random)")
	mod := fs.Int("mod", 1, "shard count")
	rem := fs.Int("rem", 0, "shard index: process script lines with lineno % mod == rem")
	opf := fs.String("opfilter", "all", "keep scripts whose last call is in this family: all|mut|query|nbr|trans")
	bits := fs.Int("bits", 32, "universe width: 32 | 64")
	keepRcp := fs.Bool("keeprcp", false, "keep the build recipes given by the script")
	fs.Parse(args)
	loadStructures(*structs)
	in, err := os.Open(*scripts)
	if err != nil {
		panic(err)
	}
	f, err := os.Create(*out)
	if err != nil {
		panic(err)
	}
	w := bufio.NewWriterSize(f, 1<<20)
	sc := bufio.NewScanner(in)
	sc.Buffer(make([]byte, 1<<20), 1<<26)
	kl := strings.Split(*kinds, ",")
	var rl []string
	if *rcps != "" {
		rl = strings.Split(*rcps, ",")
	}
	id := *first - 1
	cv := coverOut{Ops: map[string]int{}, Kinds: map[string]int{}}
	sel := rand.New(rand.NewSource(*seed))
	lineno := -1
	for sc.Scan() {
		line := sc.Bytes()
		if len(line) == 0 || line[0] != '{' {
			continue
		}
		lineno++
		if lineno%*mod != *rem {
			id += len(kl)
			continue
		}
		var s Script
		if err := json.Unmarshal(line, &s); err != nil {
			panic(fmt.Sprintf("bad script line: %v: %s", err, line))
		}
		st, ok := structures[s.St]
		if s.Struct != nil {
			st, ok = *s.Struct, true
		}
		if !ok {
			panic("unknown structure " + s.St)
		}
		if !opFamilyMatch(*opf, s.Calls[len(s.Calls)-1].Op) {
			id += len(kl)
			continue
		}
		for _, kind := range kl {
			id++
			keep := sel.Float64() < *sample
			if !keep || (*only != 0 && id != *only) {
				continue
			}
			r := rand.New(rand.NewSource(*seed*7919 + int64(id)))
			if s.Kind != "" {
				kind = s.Kind
			}
			concBase = s.Base
			cc, err := concretise(st, kind, r, *bits)
			if err != nil {
				panic(err)
			}
			e := newExec(cc.U, w, id, r.Int63())
			e.begin()
			for _, c := range s.Calls {
				if c.Op == "End" {
					continue
				}
				c = mapCall(c, cc)
				if kind == "keygaps" && c.C0 > 0 && c.C1 > c.C0 { // a range across the unused keys would materialise all of them
					lo, hi := e.rangeOf(c.C0, c.C1)
					if hi-lo > 1<<22 {
						continue
					}
				}
				if *bits == 64 && !op64[c.Op] {
					continue
				}
				if c.Op == "Build" && !(*keepRcp && c.Rcp != "") {
					if len(rl) > 0 {
						c.Rcp = rl[r.Intn(len(rl))]
					} else if c.Rcp == "" {
						if *bits == 64 {
							c.Rcp = pick(r, recipes64)
						} else {
							c.Rcp = pick(r, recipes)
						}
					}
				}
				if c.Op == "AddOffset" {
					if c.J < 1 || c.J > len(cc.U.Shifts) {
						continue
					}
					expressible := true
					for _, a := range e.last[c.X] {
						if cc.U.Sh[c.J-1][a-1] < 0 {
							expressible = false
						}
					}
					if !expressible {
						continue
					}
					c.V = r.Intn(2)
				}
				if c.Op == "SelectAuto" {
					cands := selectCands(e, c.X, r)
					k := cands[c.V%len(cands)]
					c = Call{Op: "Select", X: c.X, Num: &k}
				}
				if c.Op == "RemoveRange" || c.Op == "Flip" || c.Op == "FlipS" || c.Op == "Contains" || c.Op == "ToArray" {
					if c.V == 0 {
						c.V = r.Intn(2)
					}
				}
				if c.W == 2 && (c.Op == "ParOr" || c.Op == "ParAnd" || c.Op == "ParHeapOr") {
					c.W = pick(r, []int{0, 1, 2, 3, 5, 16})
				}
				e.run(c)
			}
			cv.Traces++
			cv.Events += e.events
			cv.Kinds[kind]++
			for k, v := range e.cover {
				cv.Ops[k] += v
			}
		}
	}
	w.Flush()
	f.Close()
	writeCover(*cover, cv)
}

func opFamilyMatch(f, op string) bool {
	switch f {
	case "all", "":
		return true
	case "mut":
		switch op {
		case "Add", "AddInt", "CheckedAdd", "Remove", "CheckedRemove", "AddMany", "AddRange", "RemoveRange", "Flip", "Clear", "RunOptimize", "SetCOW", "Detach", "Clone":
			return true
		}
	case "query":
		switch op {
		case "IsEmpty", "Card", "Min", "Max", "ToArray", "ChecksumRT", "Contains", "Rank", "CardInRange", "IntersectsInterval", "SelectAuto":
			return true
		}
	case "nbr":
		switch op {
		case "NextValue", "PreviousValue", "NextAbsentValue", "PreviousAbsentValue":
			return true
		}
	case "iter":
		return strings.HasPrefix(op, "It") || op == "Ranges" || op == "End"
	case "ser":
		return op == "Ser"
	case "frozen":
		return op == "Freeze" || op == "FrozenRT"
	case "trans":
		switch op {
		case "FlipS", "AddOffset", "DenseRT", "BitSetRT":
			return true
		}
	}
	return false
}

// calls the 64-bit API offers
var op64 = map[string]bool{"New": true, "Build": true, "BitmapOf": true, "Clone": true, "Add": true, "AddInt": true, "CheckedAdd": true,
	"Remove": true, "CheckedRemove": true, "AddMany": true, "AddRange": true, "RemoveRange": true, "Flip": true, "Clear": true,
	"RunOptimize": true, "SetCOW": true, "Detach": true, "And": true, "Or": true, "Xor": true, "AndNot": true, "AndS": true, "OrS": true,
	"XorS": true, "AndNotS": true, "AndCard": true, "OrCard": true, "Intersects": true, "Equals": true, "FastOr": true, "FastAnd": true,
	"ParOr": true, "FlipS": true, "Contains": true, "IsEmpty": true, "Card": true, "Min": true, "Max": true, "Rank": true, "Select": true,
	"SelectAuto": true, "ToArray": true, "Stats": true, "String": true, "Ser64": true, "Load64": true, "ItNew": true, "ItTake": true, "ItPeek": true, "ItAdvance": true, "IterCb": true}

// driveBurst: accumulation histories (the same small operation repeated dozens of times on one chunk).
func driveBurst(r *rand.Rand, w *bufio.Writer, id int, maxAtoms int, cv *coverOut) {
	cap := maxAtoms + 10
	if r.Intn(3) == 0 {
		cap = 260 // "deep" accumulation universe
	}
	u, gens, groups := accUniverse32(r, cap)
	e := newExec(u, w, id, r.Int63())
	e.begin()
	ga, _ := u.project(gens[0])
	if r.Intn(5) == 0 {
		drivePointwise(r, w, id, cv)
		return
	}
	if cap != 260 && r.Intn(3) == 0 {
		// DEPLETION: a run chunk that is efficient only thanks to its long runs loses exactly those (no run is split):
		// what remains are isolated values, for which the run encoding is the most expensive one
		gall, _ := u.project(gens[0].union(gens[1]))
		e.run(Call{Op: "Build", Dst: 1, As: gall, Rcp: pick(r, []string{"Ro", "Ro", "Rok", "Mo", "Ao"})})
		cells := map[int]bool{}
		for _, a := range ga {
			cells[u.atom(a).Cell] = true
		}
		switch r.Intn(6) {
		case 0:
			for c := 1; c <= u.ncell(); c++ {
				if cells[c] {
					e.run(Call{Op: "RemoveRange", X: 1, C0: c, C1: c + 1})
				}
			}
		case 1:
			e.run(Call{Op: "Build", Dst: 2, As: ga, Rcp: pick(r, []string{"R", "Ro", "M"})})
			e.run(Call{Op: "AndNot", X: 1, Y: 2})
		case 2:
			e.run(Call{Op: "Build", Dst: 2, As: ga, Rcp: pick(r, []string{"R", "Ro", "M"})})
			e.run(Call{Op: "Xor", X: 1, Y: 2})
		case 3:
			gi, _ := u.project(gens[1])
			e.run(Call{Op: "Build", Dst: 2, As: gi, Rcp: pick(r, []string{"M", "A", "Ro"})})
			e.run(Call{Op: "And", X: 1, Y: 2})
		case 4:
			e.run(Call{Op: "Build", Dst: 2, As: ga, Rcp: pick(r, []string{"R", "Ro", "M"})})
			e.run(Call{Op: "AndNotS", Dst: 1, X: 1, Y: 2})
		default:
			for _, a := range ga {
				e.run(Call{Op: "Build", Dst: 2, As: []int{a}, Rcp: "R"})
				e.run(Call{Op: "AndNot", X: 1, Y: 2})
			}
		}
		e.run(Call{Op: "Card", X: 1})
		e.run(Call{Op: "Ser", X: 1, V: r.Intn(4)})
		e.run(Call{Op: "RunOptimize", X: 1})
		e.run(Call{Op: "Card", X: 1})
		cv.Traces++
		cv.Events += e.events
		for k, v := range e.cover {
			cv.Ops[k] += v
		}
		return
	}
	e.run(Call{Op: "Build", Dst: 1, As: ga, Rcp: pick(r, []string{"Ro", "Ro", "R", "Rok", "Roz"})})
	mode := r.Intn(6)
	if cap == 260 && r.Intn(2) == 0 {
		mode = 0
	}
	order := r.Perm(len(groups))
	rounds := 1 + r.Intn(2)
	for round := 0; round < rounds; round++ {
		for _, gi := range order {
			g := groups[gi]
			switch mode {
			case 0: // in-place Or with a small array operand
				e.run(Call{Op: "Build", Dst: 2, As: g, Rcp: pick(r, []string{"M", "A", "B", "R"})})
				e.run(Call{Op: "Or", X: 1, Y: 2})
			case 1: // in-place Xor (adds on the first round, removes on the second)
				e.run(Call{Op: "Build", Dst: 2, As: g, Rcp: "M"})
				e.run(Call{Op: "Xor", X: 1, Y: 2})
			case 2: // AddRange of the whole cell, then RemoveRange of it on the second round
				c := u.atom(g[0]).Cell
				if round == 0 {
					e.run(Call{Op: "AddRange", X: 1, C0: c, C1: c + 1})
				} else {
					e.run(Call{Op: "RemoveRange", X: 1, C0: c, C1: c + 1})
				}
			case 3: // static Or accumulating into the same slot
				e.run(Call{Op: "Build", Dst: 2, As: g, Rcp: "M"})
				e.run(Call{Op: "OrS", Dst: 1, X: 1, Y: 2})
			case 4: // Flip of the cell
				c := u.atom(g[0]).Cell
				e.run(Call{Op: "Flip", X: 1, C0: c, C1: c + 1})
			default: // AndNot removing group by group after a bulk add
				if round == 0 {
					e.run(Call{Op: "Build", Dst: 2, As: g, Rcp: "M"})
					e.run(Call{Op: "Or", X: 1, Y: 2})
				} else {
					e.run(Call{Op: "Build", Dst: 2, As: g, Rcp: "M"})
					e.run(Call{Op: "AndNot", X: 1, Y: 2})
				}
			}
		}
		if r.Intn(2) == 0 {
			e.run(Call{Op: "Card", X: 1})
		}
	}
	e.run(Call{Op: "Ser", X: 1, V: r.Intn(4)})
	e.run(Call{Op: "RunOptimize", X: 1})
	e.run(Call{Op: "Card", X: 1})
	cv.Traces++
	cv.Events += e.events
	for k, v := range e.cover {
		cv.Ops[k] += v
	}
}

// drivePointwise: single-value updates that carry a chunk across a representation threshold one value at a time:
// (a) a run of n consecutive values loses every other value (each removal splits a run: run encoding becomes the most
// expensive one), (b) a chunk of 4096 +/- a few scattered values gains / loses single values across 4096. Every value
// that is touched is its own atom; the updates go through Remove, CheckedRemove, Add, CheckedAdd, Flip of one value.
func drivePointwise(r *rand.Rand, w *bufio.Writer, id int, cv *coverOut) {
	key := pick(r, []uint64{0, 3, 0x7FFF, 0xFFFF})
	base := key << 16
	var gens []iset
	var cuts []uint64
	var pts []uint64
	mode := r.Intn(4)
	switch mode {
	case 3: // many runs of 3: both ends of every run trimmed (the number of runs never changes, the cardinality drops to a third)
		nruns := 40 + r.Intn(60)
		lo := base + uint64(r.Intn(30000))
		var sp []span
		for i := 0; i < nruns; i++ {
			a := lo + uint64(10*i)
			sp = append(sp, span{a, a + 2})
			cuts = append(cuts, a, a+1, a+2, a+3)
			pts = append(pts, a, a+2)
		}
		gens = append(gens, normalize(sp))
	case 0: // a run, every other value removed
		n := uint64(60 + 2*r.Intn(60))
		lo := base + uint64(r.Intn(60000))
		gens = append(gens, iset{span{lo, lo + n - 1}})
		for v := lo; v < lo+n; v++ {
			cuts = append(cuts, v)
		}
		cuts = append(cuts, lo+n)
		for v := lo + 1; v < lo+n; v += 2 {
			pts = append(pts, v)
		}
	default: // scattered values around the 4096 threshold plus a dozen single values
		m := 4090 + r.Intn(5)
		var sp []span
		for _, p := range r.Perm(60000)[:m] {
			sp = append(sp, span{base + 100 + uint64(p), base + 100 + uint64(p)})
		}
		body := normalize(sp)
		gens = append(gens, body)
		var ps []span
		for i := 0; i < 12; i++ {
			v := base + uint64(2+7*i)
			pts = append(pts, v)
			ps = append(ps, span{v, v})
			cuts = append(cuts, v, v+1)
		}
		gens = append(gens, normalize(ps))
	}
	u, err := vennUniverse(32, cuts, gens)
	if err != nil {
		panic(err)
	}
	u.computeShifts([]int64{0})
	u.Name = "pointwise"
	e := newExec(u, w, id, r.Int63())
	e.begin()
	atomOf := func(v uint64) int {
		a, _ := u.project(iset{span{v, v}})
		if len(a) != 1 {
			panic("pointwise: value is not an atom")
		}
		return a[0]
	}
	ga, _ := u.project(gens[0])
	switch mode {
	case 0, 3:
		e.run(Call{Op: "Build", Dst: 1, As: ga, Rcp: pick(r, []string{"R", "Ro", "Rok"})})
		rm := pick(r, []string{"Remove", "CheckedRemove", "Flip1", "CheckedRemove"})
		for _, v := range pts {
			e.pointUpdate(rm, 1, atomOf(v), u)
		}
	default:
		e.run(Call{Op: "Build", Dst: 1, As: ga, Rcp: pick(r, []string{"M", "A", "R", "Mo"})})
		add := pick(r, []string{"Add", "CheckedAdd", "AddInt", "Flip1"})
		rm := pick(r, []string{"Remove", "CheckedRemove", "Flip1", "CheckedRemove"})
		for _, v := range pts { // up across 4096 ...
			e.pointUpdate(add, 1, atomOf(v), u)
		}
		if r.Intn(2) == 0 {
			e.run(Call{Op: "RunOptimize", X: 1})
		}
		for _, v := range pts { // ... and down again
			e.pointUpdate(rm, 1, atomOf(v), u)
		}
	}
	e.run(Call{Op: "Card", X: 1})
	e.run(Call{Op: "Ser", X: 1, V: r.Intn(4)})
	e.run(Call{Op: "RunOptimize", X: 1})
	e.run(Call{Op: "Card", X: 1})
	cv.Traces++
	cv.Events += e.events
	for k, v := range e.cover {
		cv.Ops[k] += v
	}
}

func (e *Exec) pointUpdate(op string, x, atom int, u *Universe) {
	if op == "Flip1" {
		c := u.atom(atom).Cell
		e.run(Call{Op: "Flip", X: x, C0: c, C1: c + 1})
		return
	}
	e.run(Call{Op: op, X: x, A: atom})
}

// driveKernel: the container-kernel matrix. One chunk key (sometimes a second, adjacent one), operand A and B
// drawn from the catalogue of boundary shapes, each realised as array / bitmap / run chunk by its recipe, then
// every binary operation in every form and both operand orders on fresh copies.
// driveAggSparse: aggregates over 3..4 bitmaps whose chunk (bucket) keys interleave sparsely over a key range wide
// enough that a parallel work item spans several keys: every aggregate, lists in several orders, worker counts 1..3.
func driveAggSparse(r *rand.Rand, w *bufio.Writer, id int, bits int, maxAtoms int, cv *coverOut) {
	if r.Intn(5) == 0 {
		driveAggWide(r, w, id, bits, cv)
		return
	}
	u, gens := sparseKeysUniverse(r, bits, maxAtoms)
	e := newExec(u, w, id, r.Int63())
	e.begin()
	rc := []string{"R", "Ro", "M", "Rc", "Rok"}
	if bits == 64 {
		rc = recipes64
	}
	n := len(gens)
	if n > 4 {
		n = 4
	}
	for i := 0; i < n; i++ {
		ga, bad := u.project(gens[i])
		if bad != "" {
			panic("generator is not a union of atoms: " + bad)
		}
		e.run(Call{Op: "Build", Dst: i + 1, As: ga, Rcp: pick(r, rc)})
	}
	ops := []string{"FastOr", "HeapOr", "ParOr", "ParHeapOr", "FastAnd", "ParAnd", "HeapXor"}
	if bits == 64 {
		ops = []string{"FastOr", "FastAnd", "ParOr"}
	}
	for _, op := range ops {
		for rep := 0; rep < 2; rep++ {
			xs := r.Perm(n)
			for i := range xs {
				xs[i]++
			}
			if rep == 1 && n > 3 && r.Intn(2) == 0 {
				xs = xs[:3]
			}
			c := Call{Op: op, Dst: 5, Xs: xs}
			if strings.HasPrefix(op, "Par") {
				c.W = 1 + (rep+r.Intn(2))%3
			}
			e.run(c)
		}
	}
	if bits != 64 {
		e.run(Call{Op: "Clone", Dst: 6, X: 1})
		e.run(Call{Op: "AndAny", X: 6, Xs: []int{2, 3}})
	}
	cv.Traces++
	cv.Events += e.events
	for k, v := range e.cover {
		cv.Ops[k] += v
	}
}

// driveOffsetKernel: AddOffset / AddOffset64 with ARBITRARY offsets on storage-edge shapes. The offset is larger than
// the span of the operand, so operand g and result g+d are disjoint generators of the universe (g is one atom per cell,
// and it maps onto an atom); every chunk of g is split in two by the offset's low 16 bits and the upper half of one
// chunk meets the lower half of the next in the result. The way back (-d) must restore g.
func driveOffsetKernel(r *rand.Rand, w *bufio.Writer, id int, cv *coverOut) {
	var u *Universe
	var ga []int
	var d int64
	for {
		key := pick(r, []uint64{8, 9, 100, 0x7FF0, 0xFFE0})
		g := edgeShape(r, key)
		if r.Intn(2) == 0 {
			g = chunkShape(r, key)
		}
		g = g.union(pick(r, []iset{edgeShape(r, key+1), chunkShape(r, key+1), relativeShape(r, g, key)}))
		if r.Intn(3) == 0 {
			g = g.union(edgeShape(r, key+2))
		}
		if g.empty() {
			continue
		}
		low := pick(r, []int64{1, 63, 64, 65, 4095, 4096, 5000, 32768, 60000, 61440, 65535, int64(r.Intn(65536)), 0})
		d = int64(4+r.Intn(3))*65536 + low
		if r.Intn(2) == 0 {
			d = -d
		}
		t := g.shift(d, 0xFFFFFFFF)
		var err error
		u, err = vennUniverse(32, nil, []iset{g, t})
		if err != nil {
			panic(err)
		}
		if len(u.Atoms) > 20 {
			continue
		}
		u.computeShifts([]int64{d, -d})
		ga, _ = u.project(g)
		ok := len(ga) > 0
		for _, a := range ga {
			if u.Sh[0][a-1] <= 0 {
				ok = false
			}
		}
		if ok {
			break
		}
	}
	u.Name = "offsetkernel"
	e := newExec(u, w, id, r.Int63())
	e.begin()
	e.run(Call{Op: "Build", Dst: 1, As: ga, Rcp: pick(r, []string{"R", "Ro", "M", "Mo", "Rc", "A", "Rz"})})
	e.run(Call{Op: "AddOffset", Dst: 2, X: 1, J: 1, V: r.Intn(2)})
	e.run(Call{Op: "Ser", X: 2, V: r.Intn(4)})
	e.run(Call{Op: "AddOffset", Dst: 3, X: 2, J: 2, V: r.Intn(2)})
	e.run(Call{Op: "Equals", X: 1, Y: 3})
	e.run(Call{Op: "Card", X: 2})
	cv.Traces++
	cv.Events += e.events
	for k, v := range e.cover {
		cv.Ops[k] += v
	}
}

// driveCowKeys: a copy-on-write clone over sparse keys becomes partly private (writes in its lowest / highest / random
// keys), then an in-place operation drops or keeps whole keys (AndNot / And / Xor / Or / RemoveRange with an operand
// covering the first keys, the last keys, or a random half), then both clone and original are written to in every
// key. Per-key copy-on-write flags must travel with their keys through every slide of the key array.
func driveCowKeys(r *rand.Rand, w *bufio.Writer, id int, bits int, maxAtoms int, cv *coverOut) {
	u, gens := sparseKeysUniverse(r, bits, maxAtoms)
	e := newExec(u, w, id, r.Int63())
	e.begin()
	g0, _ := u.project(gens[0].union(gens[1]))
	if len(g0) == 0 {
		return
	}
	sort.Ints(g0)
	e.run(Call{Op: "Build", Dst: 1, As: g0, Rcp: pick(r, []string{"Rc", "Mc", "Rc", "Roc"})})
	e.run(Call{Op: "Clone", Dst: 2, X: 1})
	cellOf := func(a int) int { return u.atom(a).Cell }
	lowCell, highCell := cellOf(g0[0]), cellOf(g0[len(g0)-1])
	write := func(slot int, a int) {
		at := u.atom(a)
		if h, n := at.Set.count128(); h == 0 && n == 1 { // a single value: point update
			if r.Intn(2) == 0 {
				e.run(Call{Op: "Remove", X: slot, A: a})
			} else {
				e.run(Call{Op: "Add", X: slot, A: a})
			}
			return
		}
		e.run(Call{Op: "Build", Dst: 4, As: []int{a}, Rcp: "R"})
		if r.Intn(2) == 0 {
			e.run(Call{Op: "AndNot", X: slot, Y: 4})
		} else {
			e.run(Call{Op: "Or", X: slot, Y: 4})
		}
	}
	pointAtoms := func(cell int) []int { // atoms of g0 in that cell
		var out []int
		for _, a := range g0 {
			if cellOf(a) == cell {
				out = append(out, a)
			}
		}
		return out
	}
	// make some keys of the clone private
	for _, c := range []int{lowCell, highCell, cellOf(g0[r.Intn(len(g0))])} {
		if r.Intn(3) != 0 {
			as := pointAtoms(c)
			write(2, as[r.Intn(len(as))])
		}
	}
	// the operand: atoms of the first keys, of the last keys, or a random half
	var opnd []int
	switch r.Intn(4) {
	case 0:
		opnd = pointAtoms(lowCell)
	case 1:
		opnd = pointAtoms(highCell)
	case 2:
		cut := cellOf(g0[len(g0)/2])
		for _, a := range g0 {
			if cellOf(a) <= cut {
				opnd = append(opnd, a)
			}
		}
	default:
		for _, a := range g0 {
			if r.Intn(2) == 0 {
				opnd = append(opnd, a)
			}
		}
	}
	sort.Ints(opnd)
	e.run(Call{Op: "Build", Dst: 3, As: opnd, Rcp: pick(r, []string{"R", "M", "Rc"})})
	op := pick(r, []string{"AndNot", "AndNot", "And", "Xor", "Or"})
	tgt := 2
	if r.Intn(4) == 0 {
		tgt = 1
	}
	e.run(Call{Op: op, X: tgt, Y: 3})
	// now write everywhere, on both sides
	for _, a := range g0 {
		if r.Intn(2) == 0 {
			write(1+r.Intn(2), a)
		}
	}
	e.run(Call{Op: "Equals", X: 1, Y: 2})
	cv.Traces++
	cv.Events += e.events
	for k, v := range e.cover {
		cv.Ops[k] += v
	}
}

// driveAggWide: few values spread over a WIDE key range and MANY workers: the pipelines get more work items than their
// channels hold (chunkSpecChan max(64, 2p), chunkChan 32; inputChan 128, resultChan 32).
func driveAggWide(r *rand.Rand, w *bufio.Writer, id int, bits int, cv *coverOut) {
	shift := uint(16)
	if bits == 64 {
		shift = 32
	}
	width := uint64(130 + r.Intn(500))
	k0 := uint64(r.Intn(1000))
	ng := 2 + r.Intn(2)
	gens := make([]iset, ng)
	var cuts []uint64
	for i := range gens {
		var sps []span
		ks := []uint64{k0, k0 + width}
		if i > 0 {
			ks = []uint64{k0 + uint64(r.Int63n(int64(width))), k0 + uint64(r.Int63n(int64(width)))}
		}
		if r.Intn(3) == 0 { // a common value in every key of a stretch: many work items for the heap pipelines
			n := uint64(140 + r.Intn(80))
			for k := uint64(0); k < n && k <= width; k++ {
				ks = append(ks, k0+k)
			}
		}
		for _, k := range ks {
			sps = append(sps, span{k<<shift + 7, k<<shift + 7})
		}
		gens[i] = normalize(sps)
	}
	u, err := vennUniverse(bits, cuts, gens)
	if err != nil {
		panic(err)
	}
	u.computeShifts(nil)
	u.Name = "aggwide"
	e := newExec(u, w, id, r.Int63())
	e.begin()
	for i := range gens {
		ga, _ := u.project(gens[i])
		e.run(Call{Op: "Build", Dst: i + 1, As: ga, Rcp: "R"})
	}
	xs := []int{}
	for i := range gens {
		xs = append(xs, i+1)
	}
	ops := []string{"ParOr", "ParHeapOr", "ParAnd"}
	if bits == 64 {
		ops = []string{"ParOr"}
	}
	for _, op := range ops {
		for _, p := range []int{pick(r, []int{33, 40, 64}), pick(r, []int{100, 150, 1, 2})} {
			e.run(Call{Op: op, Dst: 5, Xs: xs, W: p})
		}
	}
	cv.Traces++
	cv.Events += e.events
	for k, v := range e.cover {
		cv.Ops[k] += v
	}
}

// driveAggKernel: aggregates over three bitmaps whose contents in ONE chunk key (plus sometimes a neighbour key) are
// storage-edge shapes (full chunk, runs at word / chunk edges, threshold arrays, dense bitmaps): every aggregate in every
// order of the list, so that each container kind meets each other kind at each list position (the first two inputs and
// the third-and-later ones take different code paths); the sharing probe then writes to every participant.
func driveAggKernel(r *rand.Rand, w *bufio.Writer, id int, cv *coverOut) {
	var u *Universe
	var gs [3][]int
	for {
		key := pick(r, []uint64{0, 1, 9, 0x7FFF, 0xFFFE, 0xFFFF})
		var shapes [3]iset
		for i := range shapes {
			shapes[i] = edgeShape(r, key)
			if r.Intn(4) == 0 {
				shapes[i] = chunkShape(r, key)
			}
			if r.Intn(4) == 0 && key < 0xFFFF {
				shapes[i] = shapes[i].union(edgeShape(r, key+1))
			}
		}
		if r.Intn(3) == 0 {
			shapes[r.Intn(3)] = iset{span{key << 16, key<<16 + 65535}} // a full chunk somewhere in the list
		} else if r.Intn(2) == 0 {
			// value ranges that touch: one input lies entirely above / below another and starts at (or right after) its extreme
			i := r.Intn(3)
			j := (i + 1 + r.Intn(2)) % 3
			if r.Intn(2) == 0 { // keep the lower one small enough for array storage
				shapes[i] = stackedShape(r, iset{span{key<<16 + uint64(r.Intn(30000)), key<<16 + uint64(30000+r.Intn(100))}}, key)
			}
			shapes[j] = stackedShape(r, shapes[i], key)
			if r.Intn(2) == 0 { // the third input holds nothing under this key: no later step revisits (and repairs) the pair's chunk
				k3 := 3 - i - j
				shapes[k3] = iset{}
				if key < 0xFFFF && r.Intn(2) == 0 {
					shapes[k3] = edgeShape(r, key+1)
				}
			}
		}
		var err error
		u, err = vennUniverse(32, []uint64{key << 16, (key + 1) << 16}, shapes[:])
		if err != nil {
			panic(err)
		}
		if len(u.Atoms) > 60 {
			continue
		}
		for i := range shapes {
			gs[i], _ = u.project(shapes[i])
		}
		break
	}
	u.computeShifts([]int64{0})
	u.Name = "aggkernel"
	e := newExec(u, w, id, r.Int63())
	e.begin()
	rc := []string{"R", "Ro", "Ro", "M", "Mo", "Rc", "Rok", "A", "Rz", "Rof"}
	for i := range gs {
		e.run(Call{Op: "Build", Dst: i + 1, As: gs[i], Rcp: pick(r, rc)})
	}
	perms := [][]int{{1, 2, 3}, {1, 3, 2}, {2, 1, 3}, {2, 3, 1}, {3, 1, 2}, {3, 2, 1}}
	ops := []string{"FastOr", "HeapOr", "ParOr", "ParHeapOr", "FastAnd", "ParAnd", "HeapXor"}
	r.Shuffle(len(ops), func(i, j int) { ops[i], ops[j] = ops[j], ops[i] })
	for _, op := range ops {
		r.Shuffle(len(perms), func(i, j int) { perms[i], perms[j] = perms[j], perms[i] })
		for _, p := range perms[:3] {
			c := Call{Op: op, Dst: 4 + r.Intn(2), Xs: append([]int(nil), p...)}
			if strings.HasPrefix(op, "Par") {
				c.W = 1 + r.Intn(3)
			}
			e.run(c)
		}
	}
	e.run(Call{Op: "Clone", Dst: 6, X: 1})
	e.run(Call{Op: "AndAny", X: 6, Xs: []int{2, 3}})
	cv.Traces++
	cv.Events += e.events
	for k, v := range e.cover {
		cv.Ops[k] += v
	}
}

func driveKernel(r *rand.Rand, w *bufio.Writer, id int, cv *coverOut) {
	var u *Universe
	var ga, gb []int
	nearMiss := false
	for {
		key := pick(r, []uint64{0, 1, 9, 0x7FFF, 0xFFFE, 0xFFFF})
		a, b := edgeShape(r, key), edgeShape(r, key)
		if r.Intn(2) == 0 {
			b = relativeShape(r, a, key)
		}
		if r.Intn(10) == 0 {
			a, b = fragmentingPair(r, key)
		}
		nearMiss = r.Intn(6) == 0
		if nearMiss { // B = A with ONE value at a run edge exchanged for a value outside A: same cardinality, different set
			if nb, ok := swapOneValue(r, a, key); ok {
				b = nb
			} else {
				nearMiss = false
			}
		}
		if r.Intn(3) == 0 && key < 0xFFFF {
			a = a.union(edgeShape(r, key+1))
		}
		if r.Intn(3) == 0 && key > 0 {
			b = b.union(edgeShape(r, key-1))
		}
		var err error
		u, err = vennUniverse(32, []uint64{key << 16, (key + 1) << 16}, []iset{a, b})
		if err != nil {
			panic(err)
		}
		if len(u.Atoms) > 60 {
			continue
		}
		ga, _ = u.project(a)
		gb, _ = u.project(b)
		break
	}
	u.computeShifts([]int64{0})
	u.Name = "kernel"
	e := newExec(u, w, id, r.Int63())
	e.begin()
	rc := []string{"R", "Ro", "M", "Mo", "Rc", "Rok", "Rz", "Rof", "Mz", "Rou"}
	ra, rb := pick(r, rc), pick(r, rc)
	if nearMiss { // the two operands in different storage forms (run-optimised vs value by value), either way round
		ra, rb = pick(r, []string{"Ro", "R", "Rok"}), pick(r, []string{"M", "A", "Mc"})
		if r.Intn(2) == 0 {
			ra, rb = rb, ra
		}
	}
	e.run(Call{Op: "Build", Dst: 1, As: ga, Rcp: ra})
	e.run(Call{Op: "Build", Dst: 2, As: gb, Rcp: rb})
	ops := []string{"And", "Or", "Xor", "AndNot"}
	r.Shuffle(len(ops), func(i, j int) { ops[i], ops[j] = ops[j], ops[i] })
	for _, op := range ops {
		for _, ord := range [][2]int{{1, 2}, {2, 1}} {
			e.run(Call{Op: "Clone", Dst: 3, X: ord[0]})
			if r.Intn(3) == 0 {
				e.run(Call{Op: "Detach", X: 3})
			}
			e.run(Call{Op: op, X: 3, Y: ord[1]})
			e.run(Call{Op: op + "S", Dst: 4, X: ord[0], Y: ord[1]})
			if r.Intn(2) == 0 { // what the results look like on the wire (payload kinds at the thresholds)
				e.run(Call{Op: "Ser", X: 3 + r.Intn(2), V: r.Intn(4)})
			}
		}
	}
	for _, q := range []string{"AndCard", "OrCard", "Intersects", "Equals"} {
		e.run(Call{Op: q, X: 1, Y: 2})
		e.run(Call{Op: q, X: 2, Y: 1})
	}
	// scalar sweep over the operands and the last results: Select at the indexes that follow the ends of maximal intervals
	// (word-aligned ones always), their predecessors, cell boundaries, random indexes - every one judged exactly
	for _, x := range []int{1, 2, 3, 4} {
		if e.mode64 && e.slots64[x] == nil || !e.mode64 && e.slots[x] == nil {
			continue
		}
		cands := selectCands(e, x, r)
		for j := 0; j < 6; j++ {
			k := pick(r, cands)
			e.run(Call{Op: "Select", X: x, Num: &k})
		}
	}
	e.run(Call{Op: "Or", X: 1, Y: 1})
	e.run(Call{Op: "Xor", X: 2, Y: 2})
	cv.Traces++
	cv.Events += e.events
	for k, v := range e.cover {
		cv.Ops[k] += v
	}
}
