package main

// Random universes and random call generation for the 32-bit set family (the C->S direction), and
// the concretisation catalogue used to replay TLC-generated scripts (the S->C direction).

import (
	"fmt"
	"math/rand"
	"sort"
)

// ---------------------------------------------------------------- generator shapes

func pick[T any](r *rand.Rand, xs []T) T { return xs[r.Intn(len(xs))] }

var keyPool32 = []uint64{0, 1, 2, 3, 7, 100, 0x7FFF, 0x8000, 0xFFF0, 0xFFFD, 0xFFFE, 0xFFFF}

func randKeys(r *rand.Rand, n int) []uint64 {
	m := map[uint64]bool{}
	base := pick(r, keyPool32)
	for len(m) < n {
		switch r.Intn(4) {
		case 0:
			m[pick(r, keyPool32)] = true
		case 1:
			m[uint64(r.Intn(65536))] = true
		default: // neighbours, so that several chunks are adjacent
			k := int64(base) + int64(r.Intn(5)) - 2
			if k >= 0 && k <= 0xFFFF {
				m[uint64(k)] = true
			}
		}
	}
	var out []uint64
	for k := range m {
		out = append(out, k)
	}
	sort.Slice(out, func(i, j int) bool { return out[i] < out[j] })
	return out
}

// swapOneValue: a with the first or last value of one of its runs (preferably the first or the last run) replaced by
// one value that is not in a (next to a run, or far away): same cardinality, same number of chunks, a different set.
func swapOneValue(r *rand.Rand, a iset, key uint64) (iset, bool) {
	base := key << 16
	in := a.intersect(iset{span{base, base + 65535}})
	out := a.complementIn(base, base+65535)
	if in.empty() || out.empty() {
		return nil, false
	}
	sp := in[r.Intn(len(in))]
	switch r.Intn(3) {
	case 0:
		sp = in[0]
	case 1:
		sp = in[len(in)-1]
	}
	drop := sp.hi
	if r.Intn(2) == 0 {
		drop = sp.lo
	}
	o := out[r.Intn(len(out))]
	add := o.lo
	switch r.Intn(3) {
	case 0:
		add = o.hi
	case 1:
		add = o.lo + uint64(r.Int63n(int64(o.hi-o.lo+1)))
	}
	return a.minus(iset{span{drop, drop}}).union(iset{span{add, add}}), true
}

// fragmentingPair: two run-shaped sets (about a thousand runs each, cheap as run chunks) whose intersection falls apart
// into about two thousand two-value pieces with a cardinality of exactly 4095, 4096 or 4097, and whose difference /
// symmetric difference are fragmented likewise: results of run x run kernels right at the array/bitmap threshold with
// more runs than a run chunk can afford.
func fragmentingPair(r *rand.Rand, key uint64) (iset, iset) {
	base := key<<16 + uint64(r.Intn(1000))
	n := uint64(1024)
	var as, bs []span
	bs = append(bs, span{base, base + 1})
	for i := uint64(0); i < n; i++ {
		as = append(as, span{base + 12*i, base + 12*i + 5})
		bs = append(bs, span{base + 12*i + 4, base + 12*i + 13})
	}
	// |A and B| = 2 (first piece) + 2 per bridge end = 4n exactly (the last B run reaches past the last A run)
	a, b := normalize(as), normalize(bs)
	switch r.Intn(3) {
	case 0: // 4095
		b = b.minus(iset{span{base, base}})
	case 1: // 4096
	default: // 4097
		a = a.union(iset{span{base + 12*n + 20, base + 12*n + 20}})
		b = b.union(iset{span{base + 12*n + 20, base + 12*n + 25}})
	}
	if r.Intn(2) == 0 {
		return b, a
	}
	return a, b
}

// relativeShape returns a set built RELATIVE to a: a background that avoids a (nothing / sparse / dense / comb / the
// whole complement) plus a sliver of a placed at an edge of one of a's runs (first / last value, first / last 64-bit
// word, a few values at either end) -- or a itself minus such a sliver. Operations whose answer hinges on a tiny
// overlap at a run boundary (Intersects, AndCardinality, And, AndNot, Equals, Xor) are then decided by that sliver.
func relativeShape(r *rand.Rand, a iset, key uint64) iset {
	if a.empty() {
		return chunkShape(r, key)
	}
	if r.Intn(8) == 0 {
		return stackedShape(r, a, key)
	}
	base := key << 16
	chunk := iset{span{base, base + 65535}}
	inChunk := a.intersect(chunk)
	if inChunk.empty() {
		return chunkShape(r, key)
	}
	sp := inChunk[r.Intn(len(inChunk))]
	switch r.Intn(3) { // the first and the last run of a (its minimum / maximum) are the usual suspects
	case 0:
		sp = inChunk[0]
	case 1:
		sp = inChunk[len(inChunk)-1]
	}
	var sl span
	switch r.Intn(7) {
	case 0:
		sl = span{sp.hi, sp.hi}
	case 1:
		sl = span{sp.lo, sp.lo}
	case 2: // the part of the run inside the word of its last value
		sl = span{maxU64(sp.lo, sp.hi&^63), sp.hi}
	case 3: // the part of the run inside the word of its first value
		sl = span{sp.lo, minU64(sp.hi, sp.lo|63)}
	case 4:
		sl = span{maxU64(sp.lo, sp.hi-minU64(sp.hi-sp.lo, uint64(r.Intn(5)))), sp.hi}
	case 5:
		sl = span{sp.lo, minU64(sp.hi, sp.lo+uint64(r.Intn(5)))}
	default: // somewhere inside
		m := sp.lo + uint64(r.Int63n(int64(sp.hi-sp.lo+1)))
		sl = span{m, m}
	}
	sliver := iset{sl}
	outside := a.complementIn(base, base+65535)
	if r.Intn(4) == 0 {
		b := a.minus(sliver) // a without the sliver ...
		if r.Intn(2) == 0 && !outside.empty() {
			// ... and with as many values from outside a instead: same cardinality, different set
			h, n := sliver.count128()
			if h == 0 && n <= 64 {
				var sps []span
				for _, o := range outside {
					for v := o.lo; v <= o.hi && uint64(len(sps)) < n; v++ {
						sps = append(sps, span{v, v})
					}
					if r.Intn(2) == 0 && uint64(len(sps)) < n && o.hi > o.lo {
						sps[len(sps)-1] = span{o.hi, o.hi}
					}
				}
				b = b.union(normalize(sps))
			}
		}
		return b
	}
	var bg iset
	switch r.Intn(5) {
	case 0: // nothing else
	case 1: // sparse values outside a
		var sps []span
		for i, n := 0, 1+r.Intn(200); i < n; i++ {
			v := base + uint64(r.Intn(65536))
			sps = append(sps, span{v, v})
		}
		bg = normalize(sps).intersect(outside)
	case 2: // dense scattered values outside a (bitmap storage)
		var sps []span
		for _, p := range r.Perm(65536)[:5000+r.Intn(20000)] {
			sps = append(sps, span{base + uint64(p), base + uint64(p)})
		}
		bg = normalize(sps).intersect(outside)
	case 3: // comb outside a
		var sps []span
		for v := uint64(r.Intn(2)); v < 65536; v += 2 {
			sps = append(sps, span{base + v, base + v})
		}
		bg = normalize(sps).intersect(outside)
	default: // everything outside a
		bg = outside
	}
	return bg.union(sliver)
}

// stackedShape returns a set that lies entirely on one side of a inside the chunk and touches it: its minimum is a's
// maximum (one shared value), the value after it (adjacent, disjoint) or two after it - or mirrored below a's minimum.
// Scattered values (array storage unless many), the count often chosen so that |a| + |b| sits on the 4096 threshold.
// Union / intersection fast paths that compare the operands' value ranges ("disjoint, so just concatenate") are decided
// by that one touching value.
func stackedShape(r *rand.Rand, a iset, key uint64) iset {
	base := key << 16
	inChunk := a.intersect(iset{span{base, base + 65535}})
	if inChunk.empty() {
		return chunkShape(r, key)
	}
	_, na := inChunk.count128()
	n := uint64(1 + r.Intn(3000))
	if na < 4090 && r.Intn(2) == 0 {
		n = 4096 - na + uint64(r.Intn(3))
	}
	amax, amin := inChunk.max(), inChunk.min()
	up := base+65535-amax > amin-base
	if base+65535-amax > 2*n && amin-base > 2*n {
		up = r.Intn(2) == 0
	}
	var sps []span
	if up {
		v := amax + uint64(r.Intn(3))
		for i := uint64(0); i < n && v <= base+65535; i++ {
			sps = append(sps, span{v, v})
			room := (base + 65535 - v) / (n - i)
			v += 1 + uint64(r.Int63n(int64(minU64(room, 12))+1))
		}
	} else {
		v := amin - minU64(amin-base, uint64(r.Intn(3)))
		for i := uint64(0); i < n; i++ {
			sps = append(sps, span{v, v})
			room := (v - base) / (n - i)
			d := 1 + uint64(r.Int63n(int64(minU64(room, 12))+1))
			if v < base+d {
				break
			}
			v -= d
		}
	}
	return normalize(sps)
}

func maxU64(a, b uint64) uint64 {
	if a > b {
		return a
	}
	return b
}

func minU64(a, b uint64) uint64 {
	if a < b {
		return a
	}
	return b
}

// chunkShape returns a subset of chunk `key` of one of the storage-relevant shapes.
func chunkShape(r *rand.Rand, key uint64) iset {
	base := key << 16
	var sp []span
	switch r.Intn(12) {
	case 0: // a few values
		for i, n := 0, 1+r.Intn(8); i < n; i++ {
			v := base + uint64(r.Intn(65536))
			sp = append(sp, span{v, v})
		}
	case 1: // sparse array
		for i, n := 0, 50+r.Intn(3000); i < n; i++ {
			v := base + uint64(r.Intn(65536))
			sp = append(sp, span{v, v})
		}
	case 2: // near the array/bitmap threshold
		n := 4096 + r.Intn(5) - 2
		perm := r.Perm(65536)[:n]
		for _, p := range perm {
			sp = append(sp, span{base + uint64(p), base + uint64(p)})
		}
	case 3: // dense random (bitmap)
		for i, n := 0, 5000+r.Intn(20000); i < n; i++ {
			v := base + uint64(r.Intn(65536))
			sp = append(sp, span{v, v})
		}
	case 4: // comb (many runs: stays bitmap after RunOptimize)
		step := uint64(2 + r.Intn(3))
		lo := uint64(r.Intn(2000))
		n := uint64(4200 + r.Intn(9000))
		for i := uint64(0); i < n && lo+i*step < 65536; i++ {
			sp = append(sp, span{base + lo + i*step, base + lo + i*step})
		}
	case 5: // one long run
		lo := uint64(r.Intn(60000))
		ln := uint64(1 + r.Intn(int(65536-lo)))
		sp = append(sp, span{base + lo, base + lo + ln - 1})
	case 6: // a few runs
		for i, n := 0, 2+r.Intn(6); i < n; i++ {
			lo := uint64(r.Intn(65000))
			ln := uint64(1 + r.Intn(500))
			hi := lo + ln - 1
			if hi > 65535 {
				hi = 65535
			}
			sp = append(sp, span{base + lo, base + hi})
		}
	case 7: // full chunk
		sp = append(sp, span{base, base + 65535})
	case 8: // full minus a few
		s := iset{span{base, base + 65535}}
		var holes []span
		for i, n := 0, 1+r.Intn(4); i < n; i++ {
			v := base + uint64(r.Intn(65536))
			holes = append(holes, span{v, v})
		}
		return s.minus(normalize(holes))
	case 9: // edges
		for _, v := range []uint64{0, 1, 63, 64, 65, 4095, 4096, 65534, 65535} {
			if r.Intn(2) == 0 {
				sp = append(sp, span{base + v, base + v})
			}
		}
		if len(sp) == 0 {
			sp = append(sp, span{base + 65535, base + 65535})
		}
	case 10: // run reaching upper edge / lower edge
		if r.Intn(2) == 0 {
			lo := uint64(60000 + r.Intn(5535))
			sp = append(sp, span{base + lo, base + 65535})
		} else {
			sp = append(sp, span{base, base + uint64(r.Intn(5000))})
		}
	default: // many short runs (run container with many intervals)
		pos := uint64(r.Intn(100))
		for pos < 65536 && len(sp) < 1500 {
			ln := uint64(1 + r.Intn(6))
			hi := pos + ln - 1
			if hi > 65535 {
				hi = 65535
			}
			sp = append(sp, span{base + pos, base + hi})
			pos = hi + 2 + uint64(r.Intn(40))
		}
	}
	return normalize(sp)
}

func randGen32(r *rand.Rand, keys []uint64) iset {
	var s iset
	for _, k := range keys {
		if r.Intn(3) == 0 {
			continue
		}
		s = s.union(chunkShape(r, k))
	}
	if spreadKeys > 0 && r.Intn(2) == 0 { // one or two values in each of a few hundred consecutive chunks
		k0 := uint64(r.Intn(65536 - spreadKeys))
		if r.Intn(3) == 0 {
			k0 = uint64(65536 - spreadKeys)
		}
		var sp []span
		low := uint64(r.Intn(65536))
		n := spreadKeys
		if spreadKeys >= 1000 { // chunk counts around the multiples of 1024 (the offset header is then a multiple of 4096 bytes)
			for {
				n = pick(r, []int{1023, 1024, 1025, 2047, 2048, 3072, 4096})
				if spreadKeys >= 20000 { // headers beyond 64 KiB
					n = pick(r, []int{16383, 16384, 16385, 20000})
				}
				if n <= spreadKeys {
					break
				}
			}
		}
		for k := 0; k < n; k++ {
			v := (k0+uint64(k))<<16 + low
			sp = append(sp, span{v, v})
		}
		if spreadKeys >= 1000 && r.Intn(2) == 0 {
			return normalize(sp) // exactly n chunks
		}
		s = s.union(normalize(sp))
	}
	if r.Intn(6) == 0 && len(keys) >= 2 { // a range spanning several chunks
		a := keys[r.Intn(len(keys))]<<16 + uint64(r.Intn(65536))
		b := a + uint64(r.Intn(200000))
		if b > 0xFFFFFFFF {
			b = 0xFFFFFFFF
		}
		s = s.union(iset{span{a, b}})
	}
	return s
}

// ---------------------------------------------------------------- edge-directed universes
// Shapes inside one chunk that sit on the representation boundaries the container kernels care about
// (chunk edges 0 / 65535, 64-bit word edges, the 4096 threshold, gaps between runs, full chunks).
func edgeShape(r *rand.Rand, key uint64) iset {
	base := key << 16
	mk := func(pairs ...uint64) iset {
		var sp []span
		for i := 0; i+1 < len(pairs); i += 2 {
			sp = append(sp, span{base + pairs[i], base + pairs[i+1]})
		}
		return normalize(sp)
	}
	L := uint64(1 + r.Intn(300))
	switch r.Intn(28) {
	case 0:
		return mk(65535-L, 65535) // run ending at the upper edge
	case 1:
		return mk(0, L) // run starting at the lower edge
	case 2:
		return mk(0, L, 65535-L, 65535)
	case 3:
		return mk(0, 0, 65535, 65535)
	case 4:
		switch r.Intn(4) {
		case 0:
			return mk(63, 64) // straddles a word edge
		case 1: // a run whose last value is bit 63 of a word
			e := uint64(64*(1+r.Intn(1000)) + 63)
			return mk(e-uint64(r.Intn(200)), e)
		case 2: // a run whose first value is bit 0 of a word
			a := uint64(64 * (1 + r.Intn(1000)))
			return mk(a, a+uint64(r.Intn(200)))
		default: // word-aligned on both sides
			a := uint64(64 * (1 + r.Intn(900)))
			return mk(a, a+uint64(64*(1+r.Intn(40)))-1)
		}
	case 5:
		a := uint64(64 * (1 + r.Intn(1000)))
		return mk(a-uint64(1+r.Intn(70)), a+uint64(r.Intn(70)))
	case 6: // several runs with gaps, the last reaching the edge
		return mk(10, 19, 100, 163, 1000, 1000+L, 4090, 4100, 65535-L, 65535)
	case 7: // several runs, none at the edges
		return mk(10, 19, 30, 30, 100, 163, 1000, 1000+L, 4090, 4100, 50000, 50000+5*L)
	case 8, 24, 25:
		return mk(0, 65535) // full
	case 9:
		return mk(0, 65534) // full but the last
	case 10:
		return mk(1, 65535) // full but the first
	case 11: // exactly 4095 / 4096 / 4097 values as one run
		n := uint64(4095 + r.Intn(3))
		lo := uint64(r.Intn(int(65536 - n)))
		return mk(lo, lo+n-1)
	case 12: // exactly 4095 / 4096 / 4097 scattered values
		n := 4095 + r.Intn(3)
		var sp []span
		for _, p := range r.Perm(65536)[:n] {
			sp = append(sp, span{base + uint64(p), base + uint64(p)})
		}
		return normalize(sp)
	case 13: // comb over the whole chunk (32768 runs)
		var sp []span
		for v := uint64(r.Intn(2)); v < 65536; v += 2 {
			sp = append(sp, span{base + v, base + v})
		}
		return normalize(sp)
	case 14: // dense with holes at word edges
		s := iset{span{base, base + 65535}}
		return s.minus(mk(63, 64, 4095, 4096, 65535-L, 65535-L))
	case 15: // a long run crossing many words, ending inside a word
		a := uint64(r.Intn(30000))
		return mk(a, a+uint64(100+r.Intn(20000)))
	case 16: // two long runs separated by a one-value gap
		a := uint64(1000 + r.Intn(20000))
		return mk(a-900, a-1, a+1, a+5000)
	case 17: // upper half
		return mk(32768, 65535)
	case 18: // sparse values at the very top
		return mk(65530, 65530, 65533, 65533, 65535, 65535)
	case 19, 20: // one long run plus many isolated values: a run chunk that is efficient only thanks to the long run
		a := uint64(r.Intn(20000))
		ln := uint64(500 + r.Intn(3000))
		pairs := []uint64{a, a + ln}
		v := a + ln + 2 + uint64(r.Intn(50))
		for i, n := 0, 50+r.Intn(350); i < n && v < 65530; i++ {
			pairs = append(pairs, v, v)
			v += 2 + uint64(r.Intn(40))
		}
		return mk(pairs...)
	case 26, 27: // a bitmap-kind chunk (scattered background of > 4096 values) with saturated 64-bit words: blocks of 1..3 full
		// words, each followed (and sometimes preceded) by a hole - word-at-a-time fast paths of select / rank / neighbour
		// queries and of the iterators meet "all ones" next to "bit 0 clear"
		step := uint64(2 + r.Intn(3))
		var sp []span
		for v := uint64(r.Intn(3)); v < 65536; v += step {
			if step > 2 && r.Intn(3) == 0 {
				continue
			}
			sp = append(sp, span{base + v, base + v})
		}
		s := normalize(sp)
		var blocks, holes iset
		for i, n := 0, 1+r.Intn(6); i < n; i++ {
			w := uint64(r.Intn(1024))
			if i == 0 && r.Intn(3) == 0 {
				w = pick(r, []uint64{0, 1022, 1023})
			}
			nw := uint64(1 + r.Intn(3))
			if w+nw > 1024 {
				nw = 1024 - w
			}
			blocks = blocks.union(iset{span{base + 64*w, base + 64*(w+nw) - 1}})
			if w+nw < 1024 {
				holes = holes.union(iset{span{base + 64*(w+nw), base + 64*(w+nw) + uint64(r.Intn(3))}})
			}
			if w > 0 && r.Intn(2) == 0 {
				holes = holes.union(iset{span{base + 64*w - 1 - uint64(r.Intn(2)), base + 64*w - 1}})
			}
		}
		return s.union(blocks).minus(holes.minus(blocks))
	default:
		return chunkShape(r, key)
	}
}

// edgeUniverse32: generators assembled from edge shapes on a few (often adjacent) chunk keys; cut points at
// chunk edges and at the boundaries of the shapes' runs, so that range / neighbour / rank arguments land on them.
func edgeUniverse32(r *rand.Rand, maxAtoms int) (*Universe, []iset) {
	for {
		var keys []uint64
		k0 := pick(r, []uint64{0, 1, 5, 0x7FFF, 0xFFFD, 0xFFFE, 0xFFFF})
		keys = append(keys, k0)
		nextra := r.Intn(3)
		if nextra+1 < minKeys {
			nextra = minKeys - 1 + r.Intn(2)
		}
		for i := 0; i < nextra; i++ {
			k := int64(k0) + int64(r.Intn(4+nextra)) - 1
			if k >= 0 && k <= 0xFFFF {
				keys = append(keys, uint64(k))
			}
		}
		ng := 2 + r.Intn(2)
		gens := make([]iset, ng)
		for i := range gens {
			for _, k := range keys {
				if r.Intn(4) != 0 {
					gens[i] = gens[i].union(edgeShape(r, k))
				}
			}
		}
		var cuts []uint64
		add := func(t uint64) {
			if t <= 0xFFFFFFFF {
				cuts = append(cuts, t)
			}
		}
		for _, k := range keys {
			if r.Intn(3) != 0 {
				add(k << 16)
			}
			if r.Intn(3) != 0 {
				add((k + 1) << 16)
			}
		}
		// boundaries of runs of the generators: start, end+1, and single points at start-1 / end / end+1
		for i, n := 0, 3+r.Intn(6); i < n; i++ {
			g := gens[r.Intn(ng)]
			if g.empty() {
				continue
			}
			sp := g[r.Intn(len(g))]
			switch r.Intn(6) {
			case 0:
				add(sp.lo)
			case 1:
				add(sp.hi + 1)
			case 2:
				add(sp.hi)
				add(sp.hi + 1)
			case 3:
				if sp.lo > 0 {
					add(sp.lo - 1)
				}
				add(sp.lo)
			case 4:
				add(sp.lo)
				add(sp.lo + 1)
			default:
				add(sp.hi + 1)
				add(sp.hi + 2)
			}
		}
		u, err := vennUniverse(32, cuts, gens)
		if err != nil {
			panic(err)
		}
		if len(u.Atoms) > maxAtoms {
			continue
		}
		u.computeShifts([]int64{0, 65536, -65536, 1, -1, 65535, -65535})
		u.Name = fmt.Sprintf("edge/keys=%v", keys)
		return u, gens
	}
}

// accUniverse32: a universe for ACCUMULATION histories: one generator made of a few runs (an efficient run
// chunk), one made of many small groups of isolated values, each group in its own cell, so that a trace can
// add / remove / or / xor the groups one at a time, dozens of times in a row, on the same chunk.
func accUniverse32(r *rand.Rand, maxAtoms int) (*Universe, []iset, [][]int) {
	for {
		key := pick(r, []uint64{0, 1, 7, 0x7FFF, 0xFFFF})
		base := key << 16
		var runs, iso []span
		deep := maxAtoms >= 150 // long accumulations: few short runs, many single-value groups
		pos := uint64(r.Intn(200))
		nruns, maxlen := 8+r.Intn(5), 30
		if deep {
			nruns, maxlen = 8+r.Intn(2), 4
		}
		for i := 0; i < nruns; i++ {
			ln := uint64(8 + r.Intn(maxlen))
			runs = append(runs, span{base + pos, base + pos + ln - 1})
			pos += ln + uint64(20+r.Intn(200))
		}
		var cuts []uint64
		ngroups := 12 + r.Intn(5)
		if deep {
			ngroups = 70 + r.Intn(20)
		}
		pos += 500
		for g := 0; g < ngroups && pos < 64000; g++ {
			cuts = append(cuts, base+pos)
			gsz := 1 + r.Intn(3)
			if deep {
				gsz = 1
			}
			for i, n := 0, gsz; i < n; i++ {
				iso = append(iso, span{base + pos, base + pos})
				pos += uint64(2 + r.Intn(9))
			}
			pos += uint64(20 + r.Intn(300))
		}
		cuts = append(cuts, base+pos)
		gens := []iset{normalize(runs), normalize(iso)}
		u, err := vennUniverse(32, cuts, gens)
		if err != nil {
			panic(err)
		}
		if len(u.Atoms) > maxAtoms {
			continue
		}
		u.computeShifts([]int64{0})
		u.Name = fmt.Sprintf("acc/key=%d", key)
		// the groups: atoms of generator 2, one list per cell
		var groups [][]int
		ga, _ := u.project(gens[1])
		byCell := map[int][]int{}
		for _, a := range ga {
			byCell[u.atom(a).Cell] = append(byCell[u.atom(a).Cell], a)
		}
		for c := 1; c <= u.ncell(); c++ {
			if len(byCell[c]) > 0 {
				groups = append(groups, byCell[c])
			}
		}
		return u, gens, groups
	}
}

// sparseKeysUniverse: 9..20 chunk keys (32-bit) or bucket keys (64-bit) with gaps between them, 3..4 generators that
// each hold a small pattern in about half of the keys. Key-level merge loops (the aggregates' heaps, ParOr's per-range
// merges of the third and later inputs, And/AndNot key skipping) see every interleaving of private and shared keys.
func sparseKeysUniverse(r *rand.Rand, bits int, maxAtoms int) (*Universe, []iset) {
	shift := uint(16)
	maxKey := uint64(0xFFFF)
	if bits == 64 {
		shift = 32
		maxKey = 0xFFFFFFFF
	}
	for {
		nk := 9 + r.Intn(12)
		span0 := uint64(3 * nk)
		k := pick(r, []uint64{0, 1, maxKey / 2, maxKey - span0, uint64(r.Int63n(int64(maxKey - span0)))})
		var keys []uint64
		for len(keys) < nk {
			keys = append(keys, k)
			k += uint64(1 + r.Intn(3))
		}
		if r.Intn(4) == 0 { // the last key at (or next to) the very top of the key space
			d := maxKey - uint64(r.Intn(3)) - keys[len(keys)-1]
			for i := range keys {
				keys[i] += d
			}
		}
		ng := 3 + (r.Intn(3)+1)/2 // 3 (1/3) or 4 (2/3) generators
		gens := make([]iset, ng)
		for i := range gens {
			var sps []span
			for _, key := range keys {
				if r.Intn(2) == 0 {
					continue
				}
				b := key << shift
				switch r.Intn(10) {
				case 8, 9: // 5000 scattered values: a bitmap chunk whatever the recipe
					for v := uint64(r.Intn(2)); v < 10000; v += 2 {
						sps = append(sps, span{b + 20000 + v, b + 20000 + v})
					}
				case 6, 7: // a completely full chunk (stored as one run)
					sps = append(sps, span{b, b + 65535})
				case 0:
					sps = append(sps, span{b + 5, b + 5})
				case 1:
					sps = append(sps, span{b + 5, b + 5}, span{b + 9, b + 9})
				case 2:
					sps = append(sps, span{b + 5, b + 20})
				case 3:
					sps = append(sps, span{b, b})
				case 4:
					sps = append(sps, span{b + (1 << shift) - 1, b + (1 << shift) - 1})
				default:
					sps = append(sps, span{b + 40000, b + 46000})
				}
			}
			gens[i] = normalize(sps)
		}
		var cuts []uint64
		for _, key := range keys { // cells: the keys themselves and the gaps between them
			cuts = append(cuts, key<<shift)
			if key < maxKey {
				cuts = append(cuts, (key+1)<<shift)
			}
		}
		u, err := vennUniverse(bits, cuts, gens)
		if err != nil {
			panic(err)
		}
		if len(u.Atoms) > maxAtoms {
			continue
		}
		u.computeShifts(nil)
		u.Name = "sparsekeys"
		return u, gens
	}
}

// randUniverse32 draws generators + cut points and returns the Venn universe.
var minKeys = 1
var spreadKeys = 0 // > 0: generators may contain a "spread" over that many consecutive chunk keys

func randUniverse32(r *rand.Rand, maxAtoms int) (*Universe, []iset) {
	for {
		nk := 1 + r.Intn(4)
		if nk < minKeys {
			nk = minKeys + r.Intn(2)
		}
		keys := randKeys(r, nk)
		ng := 2 + r.Intn(2)
		gens := make([]iset, ng)
		for i := range gens {
			gens[i] = randGen32(r, keys)
		}
		var cuts []uint64
		addPoint := func(t uint64) {
			if t <= 0xFFFFFFFF {
				cuts = append(cuts, t)
				if t < 0xFFFFFFFF {
					cuts = append(cuts, t+1)
				}
			}
		}
		// chunk-edge cuts
		for _, k := range keys {
			if r.Intn(2) == 0 {
				cuts = append(cuts, k<<16)
			}
			if r.Intn(2) == 0 && k < 0xFFFF {
				cuts = append(cuts, (k+1)<<16)
			}
			if r.Intn(4) == 0 {
				cuts = append(cuts, k<<16+uint64(r.Intn(65536)))
			}
			if r.Intn(5) == 0 {
				cuts = append(cuts, k<<16+pick(r, []uint64{1, 63, 64, 65, 4096, 65535}))
			}
		}
		// points: elements / neighbours of elements / edges
		np := 2 + r.Intn(4)
		for i := 0; i < np; i++ {
			g := gens[r.Intn(ng)]
			switch {
			case g.empty() || r.Intn(5) == 0:
				addPoint(pick(r, []uint64{0, 0xFFFFFFFF, pick(r, keys) << 16, pick(r, keys)<<16 + 65535}))
			default:
				sp := g[r.Intn(len(g))]
				switch r.Intn(5) {
				case 0:
					addPoint(sp.lo)
				case 1:
					addPoint(sp.hi)
				case 2:
					if sp.lo > 0 {
						addPoint(sp.lo - 1)
					}
				case 3:
					if sp.hi < 0xFFFFFFFF {
						addPoint(sp.hi + 1)
					}
				default:
					addPoint(sp.lo + uint64(r.Int63n(int64(sp.hi-sp.lo+1))))
				}
			}
		}
		u, err := vennUniverse(32, cuts, gens)
		if err != nil {
			panic(err)
		}
		if len(u.Atoms) > maxAtoms {
			continue
		}
		// offsets: chunk multiples, small, negative; most will be inexpressible for random atoms;
		// the periodic universes (concretisations) are where AddOffset is exercised in depth.
		u.computeShifts([]int64{0, 65536, -65536, 1, -1, int64(1)<<32 - 1, -(int64(1)<<32 - 1)})
		u.Name = fmt.Sprintf("venn/keys=%v", keys)
		return u, gens
	}
}

// ---------------------------------------------------------------- online call generation

type Profile struct {
	Name    string
	Weights map[string]int
}

var allOps32 = []string{
	"Build", "BitmapOf", "Clone", "New",
	"Add", "AddInt", "CheckedAdd", "Remove", "CheckedRemove", "AddMany", "AddRange", "RemoveRange", "Flip", "Clear",
	"RunOptimize", "SetCOW", "Detach",
	"And", "Or", "Xor", "AndNot", "AndS", "OrS", "XorS", "AndNotS", "AndCard", "OrCard", "Intersects", "Equals",
	"FastOr", "HeapOr", "ParOr", "ParHeapOr", "FastAnd", "ParAnd", "HeapXor", "AndAny",
	"FlipS", "AddOffset", "DenseRT", "BitSetRT",
	"Contains", "IsEmpty", "Card", "Min", "Max", "Rank", "Select", "CardInRange", "IntersectsInterval",
	"NextValue", "PreviousValue", "NextAbsentValue", "PreviousAbsentValue", "ToArray", "ChecksumEq", "ChecksumRT",
	"Ser", "Load", "WriteFail", "Freeze", "FrozenRT", "LoadLegal", "DetachAll", "Scribble",
	"Ser64", "Load64",
	"ItNew", "ItTake", "ItPeek", "ItAdvance", "IterCb", "Ranges", "ConcLoad", "Stats", "String",
}

func profile(name string) Profile {
	w := map[string]int{}
	set := func(v int, ops ...string) {
		for _, o := range ops {
			w[o] = v
		}
	}
	mut := []string{"Add", "AddInt", "CheckedAdd", "Remove", "CheckedRemove", "AddMany", "AddRange", "RemoveRange", "Flip", "Clear"}
	maint := []string{"RunOptimize", "SetCOW", "Detach", "Clone"}
	alg := []string{"And", "Or", "Xor", "AndNot", "AndS", "OrS", "XorS", "AndNotS"}
	algq := []string{"AndCard", "OrCard", "Intersects", "Equals"}
	agg := []string{"FastOr", "HeapOr", "ParOr", "ParHeapOr", "FastAnd", "ParAnd", "HeapXor", "AndAny"}
	tr := []string{"FlipS", "AddOffset", "DenseRT", "BitSetRT"}
	q := []string{"Contains", "IsEmpty", "Card", "Min", "Max", "Rank", "Select", "CardInRange", "IntersectsInterval", "ToArray", "ChecksumRT", "Stats", "String"}
	nb := []string{"NextValue", "PreviousValue", "NextAbsentValue", "PreviousAbsentValue"}
	set(3, "Build")
	set(1, "BitmapOf", "New")
	switch name {
	case "algebra": // C01
		set(10, alg...)
		set(6, algq...)
		set(2, mut...)
		set(2, maint...)
		set(1, "Card", "ToArray")
	case "history": // C02
		set(10, mut...)
		set(4, maint...)
		set(1, alg...)
		set(2, "Card", "IsEmpty", "Contains")
	case "query": // C03
		set(10, q...)
		set(2, mut...)
		set(2, maint...)
		set(1, alg...)
		set(3, "Equals")
	case "neighbour": // C15
		set(12, nb...)
		set(3, "AddRange", "RemoveRange", "Flip", "Add", "Remove", "RunOptimize")
		set(1, "Or", "AndNot")
	case "aggregate": // C11
		set(10, agg...)
		set(2, mut...)
		set(2, maint...)
		set(1, alg...)
	case "transform": // C16
		set(10, tr...)
		set(2, mut...)
		set(2, maint...)
		set(2, "Flip")
	case "sharing": // C07
		set(6, alg...)
		set(4, agg...)
		set(8, "Clone")
		set(4, "FlipS", "AddOffset", "SetCOW")
		set(8, "Add", "Remove", "CheckedAdd", "CheckedRemove")
		set(4, "AddRange", "RemoveRange", "Flip", "AddMany")
		set(2, "RunOptimize", "Detach")
		set(4, "Build")
	case "serial": // C05 / C06 / C13
		set(8, "Ser", "Load", "Freeze", "FrozenRT", "LoadLegal")
		set(4, "WriteFail")
		set(3, mut...)
		set(3, "RunOptimize", "Clone", "Detach")
		set(2, alg...)
		set(2, "FlipS", "AddOffset", "FastOr", "HeapOr") // static results derived from (frozen / zero-copy) views, written to later
		set(2, "DenseRT")                                // bitmaps that alias a caller's word slice, then serialized
		set(2, "Equals", "Card")
		set(5, "Build")
	case "parallel": // C12
		set(12, "ParOr", "ParAnd", "ParHeapOr")
		set(5, "ConcLoad")
		set(2, "FastOr", "FastAnd", "HeapOr")
		set(2, mut...)
		set(1, "RunOptimize", "Clone", "SetCOW")
		set(5, "Build")
	case "all64": // C17: the 64-bit bitmap under the same contract
		set(5, "Add", "AddInt", "CheckedAdd", "Remove", "CheckedRemove", "AddMany", "AddRange", "RemoveRange", "Flip", "Clear")
		set(3, "RunOptimize", "SetCOW", "Detach", "Clone")
		set(5, alg...)
		set(3, algq...)
		set(4, "FastOr", "FastAnd", "ParOr", "FlipS")
		set(2, "Contains", "IsEmpty", "Card", "Min", "Max", "Rank", "Select", "ToArray")
		set(1, "Ser64", "Load64")
		set(4, "Build")
	case "serial64": // C18
		set(8, "Ser64", "Load64")
		set(3, "Add", "Remove", "AddRange", "RemoveRange", "Flip", "AddMany")
		set(2, "RunOptimize", "Clone", "Or", "AndNot", "Xor")
		set(5, "Build")
	case "iter": // C04
		set(8, "ItNew")
		set(16, "ItTake")
		set(6, "ItPeek", "ItAdvance")
		set(6, "IterCb", "Ranges")
		set(2, "AddRange", "RemoveRange", "Flip", "Add", "Remove", "RunOptimize", "Or", "AndNot", "Xor")
		set(4, "Build")
	case "iter64": // iterator clauses of C17
		set(8, "ItNew")
		set(16, "ItTake")
		set(6, "ItPeek", "ItAdvance")
		set(4, "IterCb")
		set(2, "AddRange", "RemoveRange", "Flip", "Add", "Remove", "RunOptimize", "Or", "AndNot", "Xor")
		set(4, "Build")
	case "legal": // C06 read direction: every legal encoder choice
		set(12, "LoadLegal")
		set(3, alg...)
		set(2, mut...)
		set(2, q...)
		set(1, nb...)
		set(3, "Build")
		set(2, "Ser", "Equals")
	case "zerocopy": // C08
		set(6, "Load", "FrozenRT", "LoadLegal")
		set(5, mut...)
		set(4, alg...)
		set(2, agg...)
		set(3, "Clone", "FlipS", "AddOffset", "Detach", "RunOptimize")
		set(3, "DetachAll", "Scribble")
		set(6, "Build")
		set(1, "Card", "Equals", "ToArray")
	default: // "all" (C09/C14 union driver)
		set(4, mut...)
		set(3, maint...)
		set(4, alg...)
		set(2, algq...)
		set(3, agg...)
		set(3, tr...)
		set(1, q...)
		set(1, nb...)
		set(2, "Load", "FrozenRT", "LoadLegal")
		set(1, "Ser", "Freeze", "DetachAll")
	}
	return Profile{Name: name, Weights: w}
}

type Gen struct {
	r       *rand.Rand
	u       *Universe
	p       Profile
	ops     []string
	cum     []int
	total   int
	singles []int
	gens    [][]int // atom sets of the generators (for Build)
}

func newGen(r *rand.Rand, u *Universe, p Profile, genAtoms [][]int) *Gen {
	g := &Gen{r: r, u: u, p: p, gens: genAtoms}
	for _, o := range allOps32 {
		if w := p.Weights[o]; w > 0 {
			g.total += w
			g.ops = append(g.ops, o)
			g.cum = append(g.cum, g.total)
		}
	}
	for _, a := range u.Atoms {
		if a.Single {
			g.singles = append(g.singles, a.ID)
		}
	}
	return g
}

func (g *Gen) slot() int { return 1 + g.r.Intn(NSLOT) }

// light: whether an atom subset is cheap to build (no atom wider than ~3M values unless it is a single range)
func (g *Gen) atomSubset() []int {
	var out []int
	p := g.r.Float64()
	for _, a := range g.u.Atoms {
		if g.r.Float64() < p {
			// keep huge filler atoms rare: they turn into tens of thousands of chunks
			if a.W.cmp(numFromU64(1<<22)) > 0 && (g.r.Intn(12) != 0 || g.u.Bits == 64 && a.W.cmp(numFromU64(1<<27)) > 0) {
				continue
			}
			out = append(out, a.ID)
		}
	}
	return out
}

func (g *Gen) cellRange() (int, int) {
	m := g.u.ncell()
	for try := 0; ; try++ {
		c0 := 1 + g.r.Intn(m+1)
		c1 := 1 + g.r.Intn(m+1)
		if c0 > c1 && g.r.Intn(8) != 0 {
			c0, c1 = c1, c0
		}
		// avoid ranges wider than 2^24 most of the time (65536-chunk bitmaps are exercised, but rarely)
		if c0 < c1 {
			lo := g.u.CellLo[c0-1]
			hi := g.u.Top
			if c1 <= m {
				hi = g.u.CellLo[c1-1] - 1
			}
			if hi-lo > 1<<24 && (g.r.Intn(25) != 0 || g.u.Bits == 64 && hi-lo > 1<<27) && try < 200 {
				continue
			}
			if g.u.Bits == 64 && hi-lo > 1<<27 {
				return c0, c0 // give up: an empty range
			}
		}
		return c0, c1
	}
}

var recipes = []string{"R", "R", "Ro", "M", "m", "A", "a", "B", "D", "Rc", "Rk", "Mo", "Mc", "Rz", "Ru", "Rr", "Rf", "Roz", "Rof", "Rok", "Mz", "Mk"}

func (g *Gen) next(e *Exec) Call {
	x := g.r.Intn(g.total)
	op := g.ops[sort.SearchInts(g.cum, x+1)]
	c := Call{Op: op}
	r := g.r
	single := func() int {
		if len(g.singles) == 0 {
			return 0
		}
		return pick(r, g.singles)
	}
	switch op {
	case "New":
		c.Dst = g.slot()
	case "Build":
		c.Dst = g.slot()
		if len(g.gens) > 0 && r.Intn(2) == 0 {
			c.As = pick(r, g.gens)
		} else {
			c.As = g.atomSubset()
		}
		c.Rcp = pick(r, recipes)
	case "BitmapOf":
		c.Dst = g.slot()
		for i, n := 0, r.Intn(6); i < n && len(g.singles) > 0; i++ {
			c.As = append(c.As, single())
		}
	case "Clone":
		c.Dst, c.X = g.slot(), g.slot()
	case "Add", "AddInt", "CheckedAdd", "Remove", "CheckedRemove", "Contains":
		c.X, c.A = g.slot(), single()
		if c.A == 0 {
			return g.next(e)
		}
		if op == "Contains" {
			c.V = r.Intn(2)
		}
	case "AddMany":
		c.X = g.slot()
		if len(g.singles) == 0 {
			return g.next(e)
		}
		for i, n := 0, r.Intn(8); i < n; i++ {
			c.As = append(c.As, single())
		}
	case "AddRange", "RemoveRange", "Flip":
		c.X = g.slot()
		c.C0, c.C1 = g.cellRange()
		c.V = r.Intn(2)
	case "Clear", "RunOptimize", "Detach", "IsEmpty", "Card", "Min", "Max", "Stats", "String":
		c.X = g.slot()
	case "ToArray":
		c.X = g.slot()
		c.V = r.Intn(2)
		if len(e.last[c.X]) > 0 {
			// skip listings larger than ~4M values
			n := Num{}
			for _, a := range e.last[c.X] {
				n = n.add(g.u.atom(a).W)
			}
			if n.cmp(numFromU64(1<<22)) > 0 {
				return g.next(e)
			}
		}
	case "SetCOW":
		c.X, c.V = g.slot(), r.Intn(2)
	case "And", "Or", "Xor", "AndNot", "AndCard", "OrCard", "Intersects", "Equals", "ChecksumEq":
		c.X, c.Y = g.slot(), g.slot()
	case "AndS", "OrS", "XorS", "AndNotS":
		c.Dst, c.X, c.Y = g.slot(), g.slot(), g.slot()
	case "FastOr", "HeapOr", "ParOr", "ParHeapOr", "FastAnd", "ParAnd", "HeapXor":
		c.Dst = g.slot()
		for i, n := 0, r.Intn(5); i < n; i++ {
			c.Xs = append(c.Xs, g.slot())
		}
		c.W = pick(r, []int{0, 1, 2, 3, 5, 16})
	case "AndAny":
		c.X = g.slot()
		for i, n := 0, 1+r.Intn(4); i < n; i++ {
			c.Xs = append(c.Xs, g.slot())
		}
	case "FlipS":
		c.Dst, c.X = g.slot(), g.slot()
		c.C0, c.C1 = g.cellRange()
		c.V = r.Intn(2)
	case "AddOffset":
		c.Dst, c.X = g.slot(), g.slot()
		// choose an offset under which every present atom maps to an atom (or is clipped)
		var ok []int
		for j := range g.u.Shifts {
			good := true
			for _, a := range e.last[c.X] {
				if g.u.Sh[j][a-1] < 0 {
					good = false
					break
				}
			}
			if good {
				ok = append(ok, j+1)
			}
		}
		if len(ok) == 0 {
			return g.next(e)
		}
		c.J = pick(r, ok)
		c.V = r.Intn(2)
	case "DenseRT":
		c.Dst, c.X = g.slot(), g.slot()
		c.V = r.Intn(8)
		if len(e.last[c.X]) > 0 {
			mx := uint64(0)
			for _, a := range e.last[c.X] {
				if m := g.u.atom(a).Set.max(); m > mx {
					mx = m
				}
			}
			if mx > 1<<27 { // dense vectors above 16 MB are skipped
				return g.next(e)
			}
		}
	case "BitSetRT":
		c.Dst, c.X = g.slot(), g.slot()
		if len(e.last[c.X]) > 0 {
			mx := uint64(0)
			for _, a := range e.last[c.X] {
				if m := g.u.atom(a).Set.max(); m > mx {
					mx = m
				}
			}
			if mx > 1<<27 {
				return g.next(e)
			}
		}
	case "Rank", "NextValue", "PreviousValue", "NextAbsentValue", "PreviousAbsentValue":
		c.X = g.slot()
		c.C0 = 1 + r.Intn(g.u.ncell())
		c.Side = r.Intn(2)
	case "CardInRange", "IntersectsInterval":
		c.X = g.slot()
		c.C0, c.C1 = 1+r.Intn(g.u.ncell()+1), 1+r.Intn(g.u.ncell()+1)
		if c.C0 > c.C1 {
			c.C0, c.C1 = c.C1, c.C0
		}
	case "Select":
		c.X = g.slot()
		cands := selectCands(e, c.X, r)
		k := pick(r, cands)
		c.Num = &k
	case "ChecksumRT":
		c.X = g.slot()
	case "Ser":
		c.X, c.V = g.slot(), r.Intn(4)
	case "Load":
		c.Dst, c.X, c.V, c.W, c.J = g.slot(), g.slot(), r.Intn(6), r.Intn(2), r.Intn(8)
		if g.p.Name == "zerocopy" && r.Intn(3) != 0 {
			c.V = 2 + r.Intn(2)
		}
	case "WriteFail":
		c.X, c.V, c.W = g.slot(), r.Intn(4), r.Intn(2)
	case "Freeze":
		c.X, c.V = g.slot(), r.Intn(4)
	case "FrozenRT":
		c.Dst, c.X, c.V = g.slot(), g.slot(), r.Intn(2)
	case "LoadLegal":
		c.Dst = g.slot()
		c.As = g.atomSubset()
		if spreadKeys >= 1000 && len(g.gens) > 0 && r.Intn(2) == 0 {
			// exactly one generator: its chunk count is the one the spread was built for (1024, 2048, ...)
			c.As = append([]int(nil), g.gens[r.Intn(len(g.gens))]...)
		}
		n := Num{}
		for _, a := range c.As {
			n = n.add(g.u.atom(a).W)
		}
		if n.cmp(numFromU64(1<<21)) > 0 {
			return g.next(e)
		}
		c.V, c.W, c.J = r.Intn(64), r.Intn(5), r.Intn(8)
		if g.p.Name != "legal" {
			// outside the C06 read-direction profile only canonical encodings are loaded (maximal runs, runs
			// only where they are smaller), so that C09/C13/C14 keep talking about library-made bitmaps
			c.V = r.Intn(2) | pick(r, []int{0, 3})<<1
		}
		if g.p.Name == "zerocopy" {
			c.W = 2 + r.Intn(2)
		}
	case "DetachAll", "Scribble":
	case "ItNew":
		c.A, c.X = 1+r.Intn(3), g.slot()
		c.Rcp = pick(r, []string{"fwd", "fwd", "rev", "many", "unset"})
		if g.u.Bits == 64 && c.Rcp == "unset" {
			c.Rcp = "fwd"
		}
		c.J = r.Intn(16)
		if c.Rcp == "unset" {
			c.C0, c.C1 = g.cellRange()
			if c.C0 > c.C1 {
				c.C0, c.C1 = c.C1, c.C0
			}
		}
	case "ItTake", "ItPeek":
		c.A = 1 + r.Intn(3)
	case "ItAdvance":
		c.A = 1 + r.Intn(3)
		c.C0, c.Side = 1+r.Intn(g.u.ncell()), r.Intn(2)
	case "IterCb":
		c.X = g.slot()
		c.Rcp = pick(r, []string{"Iterate", "Values", "Backward", "Unset"})
		c.C0 = 1 + r.Intn(g.u.ncell())
		if r.Intn(3) == 0 {
			c.C0 = g.u.ncell()
			if c.Rcp == "Backward" {
				c.C0 = 1
			}
		}
		if c.Rcp == "Unset" {
			// window = cells C1..end, kept below 2^23 integers
			c.C1 = g.u.ncell()
			for c.C1 > 1 && g.u.Top-g.u.CellLo[c.C1-2] < 1<<23 && r.Intn(3) != 0 {
				c.C1--
			}
			if g.u.Top-g.u.CellLo[c.C1-1] >= 1<<23 {
				return g.next(e)
			}
			if c.C0 < c.C1 {
				c.C0 = c.C1
			}
		}
	case "Ranges":
		c.X = g.slot()
		c.V = pick(r, []int{0, 0, 1, 2, 3, 7})
	case "ConcLoad":
		for i, n := 0, 2+r.Intn(2); i < n; i++ {
			c.Xs = append(c.Xs, 1+r.Intn(3))
		}
		c.V, c.J = r.Intn(2), r.Intn(8)
	case "Ser64":
		c.X, c.V = g.slot(), r.Intn(4)
	case "Load64":
		c.Dst, c.X, c.V, c.W, c.J = g.slot(), g.slot(), r.Intn(5), r.Intn(2), r.Intn(8)
	}
	return c
}

// selectCands: indices at cumulative-weight boundaries of the present atoms' cells (chosen from the
// projection, which only selects the input; the expected answer is computed by the specification).
func selectCands(e *Exec, x int, r *rand.Rand) []Num {
	var n Num
	cands := []Num{{}, numFromU64(uint64(r.Intn(100)))}
	byCell := map[int]Num{}
	for _, a := range e.last[x] {
		at := e.u.atom(a)
		byCell[at.Cell] = byCell[at.Cell].add(at.W)
	}
	for cell := 1; cell <= e.u.ncell(); cell++ {
		if w, ok := byCell[cell]; ok {
			cands = append(cands, n) // first of this cell
			n = n.add(w)
			cands = append(cands, decNum(n)) // last of this cell
		}
	}
	cands = append(cands, n, n.add(Num{1}), n.add(numFromU64(uint64(r.Intn(1000)))))
	// indexes inside cells (decided by the exact oracle of the executor): the first element after the end of a few
	// maximal intervals of the real set (the index that follows a saturated word / a run / a full chunk), its
	// predecessor, and a uniformly drawn index
	if raw := e.rawSet(x); len(raw) > 0 && len(raw) < 1<<20 {
		var cum uint64
		pickAt := map[int]bool{r.Intn(len(raw)): true, r.Intn(len(raw)): true, r.Intn(len(raw)): true}
		for j, sp := range raw {
			if sp.hi-sp.lo == ^uint64(0) {
				break
			}
			cum += sp.hi - sp.lo + 1
			if cum < sp.hi-sp.lo+1 {
				break // overflow of a 64-bit count
			}
			if pickAt[j] || (sp.hi&63 == 63 && sp.hi-sp.lo >= 63 && r.Intn(2) == 0) {
				cands = append(cands, numFromU64(cum), numFromU64(cum-1), numFromU64(cum), numFromU64(cum))
			}
		}
		if cum > 0 {
			cands = append(cands, numFromU64(uint64(r.Int63n(int64(cum>>1)+1))))
		}
	}
	limit := numFromU64(0xFFFFFFFF)
	if e.u.Bits == 64 {
		limit = numFromU64(^uint64(0))
	}
	for i := range cands {
		if cands[i].cmp(limit) > 0 {
			cands[i] = limit
		}
	}
	return cands
}

func decNum(n Num) Num {
	if n.isZero() {
		return n
	}
	return numFromU64(n.u64() - 1)
}

// ---------------------------------------------------------------- concretisations (S->C)

// Structure of the abstract universe a TLC model was run on: cells 1..len(PerCell), PerCell[c] atoms in
// cell c+1 (atoms numbered cell by cell), Point[c] = the cell is a single integer.
type Structure struct {
	PerCell []int  `json:"percell"`
	Point   []bool `json:"point"`
}

type Concretisation struct {
	U       *Universe
	AtomMap []int // abstract atom id (1-based) -> concrete atom id
	CellMap []int // abstract cell boundary index 1..M+1 -> concrete cell index
	Name    string
}

// texture splits [lo,hi] into k disjoint non-empty sets according to style.
func texture(r *rand.Rand, lo, hi uint64, k int, style string) []iset {
	w := hi - lo + 1
	if k == 1 {
		return []iset{{span{lo, hi}}}
	}
	if w < uint64(k) {
		panic("cell too narrow for its atoms")
	}
	parts := make([][]span, k)
	switch style {
	case "blocks": // k contiguous blocks
		for i := 0; i < k; i++ {
			a := lo + w*uint64(i)/uint64(k)
			b := lo + w*uint64(i+1)/uint64(k) - 1
			parts[i] = append(parts[i], span{a, b})
		}
	case "comb": // value v belongs to part (v-lo) mod k
		if w > 1<<21 {
			return texture(r, lo, hi, k, "stripes")
		}
		for v := lo; ; v++ {
			i := int((v - lo) % uint64(k))
			parts[i] = append(parts[i], span{v, v})
			if v == hi {
				break
			}
		}
	case "stripes": // alternating stripes of random length 1..L
		L := uint64(1 + r.Intn(300))
		if w/L > 1<<20 {
			L = w >> 18
		}
		v := lo
		i := 0
		used := make([]bool, k)
		for {
			ln := uint64(1 + r.Int63n(int64(L)))
			b := v + ln - 1
			if b > hi || b < v {
				b = hi
			}
			parts[i%k] = append(parts[i%k], span{v, b})
			used[i%k] = true
			i++
			if b == hi {
				break
			}
			v = b + 1
		}
		for j := range used {
			if !used[j] { // too few stripes: fall back
				return texture(r, lo, hi, k, "blocks")
			}
		}
	default: // "random": each value independently
		if w > 1<<21 {
			return texture(r, lo, hi, k, "stripes")
		}
		for i := 0; i < k; i++ { // guarantee non-emptiness
			parts[i] = append(parts[i], span{lo + uint64(i), lo + uint64(i)})
		}
		for v := lo + uint64(k); v <= hi && v >= lo; v++ {
			i := r.Intn(k)
			parts[i] = append(parts[i], span{v, v})
		}
	}
	out := make([]iset, k)
	for i := range parts {
		out[i] = normalize(parts[i])
	}
	return out
}

var conc64Note string

var concWidths = []uint64{2, 3, 64, 65, 128, 1000, 4095, 4096, 4097, 8190, 8192, 8194, 12288, 20000, 65535, 65536, 65537, 131072, 200000}
var concStyles = []string{"blocks", "comb", "stripes", "random"}

// concretise embeds the abstract structure at a concrete place of [0,2^32).
// kind selects a family from the catalogue; r varies the free parameters.
func concretise(st Structure, kind string, r *rand.Rand, bits int) (*Concretisation, error) {
	m := len(st.PerCell)
	top := uint64(0xFFFFFFFF)
	if bits == 64 {
		top = ^uint64(0)
	}
	widths := make([]uint64, m)
	style := pick(r, concStyles)
	var base uint64
	var gaps []uint64 // kind keygaps: unused space before cell c (c >= 1)
	keygaps := false
	periodic := uint64(0)
	switch kind {
	case "tiny": // every non-point cell a handful of values: array chunks
		for c := range widths {
			widths[c] = uint64(st.PerCell[c]) * uint64(1+r.Intn(4))
		}
		base = pick(r, []uint64{0, 1, 65530, 65536 * 3, top - 40})
	case "array":
		for c := range widths {
			widths[c] = pick(r, []uint64{64, 65, 128, 1000, 4095, 4096, 4097})
		}
		base = pick(r, []uint64{0, 65536, 65536*5 + 60000, 0xFFFF0000 - 9000})
	case "threshold": // atoms land on either side of the 4096 threshold
		for c := range widths {
			widths[c] = uint64(st.PerCell[c])*4096 + uint64(r.Intn(5)) - 2
		}
		base = pick(r, []uint64{0, 65536, 65536 * 7, 65536*9 + 3})
		style = pick(r, []string{"comb", "random", "stripes"})
	case "bitmap": // dense non-run content
		for c := range widths {
			widths[c] = pick(r, []uint64{12288, 20000, 30000, 65536})
		}
		base = pick(r, []uint64{0, 65536, 65536 * 2, 0xFFFE0000})
		style = pick(r, []string{"comb", "random"})
	case "run": // contiguous blocks: run chunks after RunOptimize
		for c := range widths {
			widths[c] = pick(r, []uint64{4097, 8192, 20000, 65536, 65537, 131072})
		}
		base = pick(r, []uint64{0, 65536, 65536 * 3, 1 << 20})
		style = pick(r, []string{"blocks", "stripes"})
	case "chunky": // whole-chunk cells, incl. the top of the key space
		for c := range widths {
			widths[c] = 65536 * uint64(1+r.Intn(2))
		}
		style = pick(r, []string{"blocks", "stripes", "comb"})
		var tot uint64
		for _, w := range widths {
			tot += w
		}
		base = pick(r, []uint64{0, 65536, 0x7FFF0000, top + 1 - tot})
	case "chunks": // every cell is one whole chunk, the first at key concBase (forced by the script)
		for c := range widths {
			widths[c] = 65536
		}
		base = concBase << 16
		style = "blocks"
	case "keyspread": // whole-chunk cells at the very top of the key space
		for c := range widths {
			widths[c] = 65536
		}
		base = (65536 - uint64(m)) << 16
		style = pick(r, []string{"blocks", "stripes", "comb"})
	case "top": // ends exactly at 2^bits
		for c := range widths {
			widths[c] = pick(r, concWidths)
		}
		var tot uint64
		for c, w := range widths {
			if st.Point[c] {
				w = 1
			}
			tot += w
		}
		base = top + 1 - tot
	case "keygaps": // every cell in a key (chunk / bucket) of its own, with unused keys between them
		for c := range widths {
			widths[c] = pick(r, []uint64{uint64(st.PerCell[c]) * uint64(1+r.Intn(4)), 64, 4097, 9000, 65536})
		}
		keygaps = true
	case "periodic": // equal widths, equal texture in each cell: AddOffset by multiples of the period
		periodic = pick(r, []uint64{7, 4096, 65536, 65537, 100000, 1 << 20})
		mx := 0
		for _, k := range st.PerCell {
			if k > mx {
				mx = k
			}
		}
		if periodic < uint64(mx) {
			periodic = uint64(mx)
		}
		for c := range widths {
			widths[c] = periodic
		}
		tot := periodic * uint64(m)
		base = pick(r, []uint64{0, 0, top + 1 - tot, top + 1 - tot, periodic * 3, 65536 * 11})
	default: // "mixed"
		for c := range widths {
			widths[c] = pick(r, concWidths)
		}
		base = pick(r, []uint64{0, 1, 65535, 65536, 65536*2 + 4090, 0x7FFFFFF0, 0xFFFE8000})
	}
	for c := range widths {
		if st.Point[c] {
			widths[c] = 1
		}
		if widths[c] < uint64(st.PerCell[c]) {
			widths[c] = uint64(st.PerCell[c])
		}
	}
	if keygaps {
		shift := uint(16)
		kmax := uint64(0xFFFF)
		if bits == 64 {
			shift, kmax = 32, 0xFFFFFFFF
		}
		gaps = make([]uint64, m)
		need := uint64(3*m + 3)
		k := pick(r, []uint64{0, 1, kmax / 2, kmax - need, uint64(r.Int63n(int64(kmax - need)))})
		pos := uint64(0)
		for c := range widths {
			lo := k << shift
			switch r.Intn(3) {
			case 1:
				lo += uint64(r.Intn(1000))
			case 2: // end exactly at the upper edge of the key
				if widths[c] <= 1<<16 {
					lo += (1 << shift) - widths[c]
				}
			}
			if c == 0 {
				base = lo
			} else {
				gaps[c] = lo - pos
			}
			pos = lo + widths[c]
			k = (pos-1)>>shift + 1 + uint64(r.Intn(3)) // the next cell starts in a key after the one holding this cell's last value
		}
	}
	var tot uint64
	for _, w := range widths {
		tot += w
	}
	for _, g := range gaps {
		tot += g
	}
	if bits == 32 && tot > top {
		return nil, fmt.Errorf("structure too wide")
	}
	if kind != "top" && kind != "chunks" && kind != "keyspread" && kind != "periodic" && kind != "keygaps" && r.Intn(2) == 0 {
		// align one cell boundary (start of cell c, 1 <= c <= m) with a chunk edge: the atoms before it end at
		// low bits 0xFFFF, those after it start at 0x0000
		c := 1 + r.Intn(m)
		var before uint64
		for i := 0; i < c; i++ {
			before += widths[i]
		}
		k := (base + before + 65535) >> 16
		if k<<16 >= before && (k<<16)-before+tot <= top {
			base = k<<16 - before
		}
	}
	if bits == 64 && kind != "top" && kind != "keygaps" {
		// place the structure relative to the 2^32 grid: inside a bucket, straddling a bucket edge,
		// in the first or the last bucket
		bucket := pick(r, []uint64{0, 1, 2, 0x7FFFFFFF, 0x80000000, 0xFFFFFFFE, 0xFFFFFFFF})
		switch r.Intn(4) {
		case 0: // as computed (bucket 0)
		case 1:
			base = bucket<<32 + base%(1<<32-tot%(1<<31)-1)
		case 2: // straddle the lower edge of the bucket
			if bucket > 0 {
				base = bucket<<32 - tot/2
			}
		default: // end exactly at a bucket edge
			if bucket > 0 {
				base = bucket<<32 - tot
			}
		}
		conc64Note = fmt.Sprintf("bucket=%d", bucket)
	}
	if base > top-tot+1 {
		base = top - tot + 1
	}
	var cellLo []uint64
	var parts [][]iset
	conc := &Concretisation{Name: fmt.Sprintf("%s/%s/base=%d", kind, style, base)}
	off := 0
	if base > 0 {
		cellLo = append(cellLo, 0)
		parts = append(parts, []iset{{span{0, base - 1}}})
		off = 1
	}
	pos := base
	var pattern []iset // periodic: texture of the first cell, translated
	cellIdx := make([]int, 0, m+1)
	for c := 0; c < m; c++ {
		if c < len(gaps) && gaps[c] > 0 { // unused space before this cell: a filler cell of its own
			cellLo = append(cellLo, pos)
			parts = append(parts, []iset{{span{pos, pos + gaps[c] - 1}}})
			pos += gaps[c]
		}
		cellIdx = append(cellIdx, len(cellLo)+1)
		cellLo = append(cellLo, pos)
		hi := pos + widths[c] - 1
		var ps []iset
		if periodic > 0 && !st.Point[c] && st.PerCell[c] == st.PerCell[0] {
			if pattern == nil {
				pattern = texture(r, pos, hi, st.PerCell[c], style)
				for i := range pattern {
					pattern[i] = pattern[i].shift(-int64(pos), top)
				}
			}
			for _, p := range pattern {
				ps = append(ps, p.shift(int64(pos), top))
			}
		} else {
			ps = texture(r, pos, hi, st.PerCell[c], style)
		}
		parts = append(parts, ps)
		pos = hi + 1
	}
	if pos != 0 && pos-1 < top { // trailing filler
		cellLo = append(cellLo, pos)
		parts = append(parts, []iset{{span{pos, top}}})
	}
	u, err := newUniverse(bits, cellLo, parts)
	if err != nil {
		return nil, err
	}
	u.Name = conc.Name
	conc.U = u
	// maps: newUniverse numbers atoms cell by cell in order of minimum, and texture() returns
	// parts in a fixed order; recover the map by matching minimum elements.
	byMin := map[uint64]int{}
	for _, a := range u.Atoms {
		byMin[a.Set.min()] = a.ID
	}
	for c := 0; c < m; c++ {
		for _, p := range parts[cellIdx[c]-1] {
			conc.AtomMap = append(conc.AtomMap, byMin[p.min()])
		}
	}
	for c := 0; c < m; c++ {
		conc.CellMap = append(conc.CellMap, cellIdx[c])
	}
	conc.CellMap = append(conc.CellMap, cellIdx[m-1]+1) // the boundary after the last cell
	_ = off
	// offsets
	var ds []int64
	if periodic > 0 {
		for j := -int64(m); j <= int64(m); j++ {
			ds = append(ds, j*int64(periodic))
		}
	} else {
		ds = []int64{0, 65536, -65536, int64(tot), -int64(tot)}
	}
	u.computeShifts(ds)
	return conc, nil
}
