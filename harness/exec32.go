package main

// Executor for the 32-bit set family: runs abstract calls (atoms / cells / slots) against the real
// library and logs one ndjson event per call with the projected post-state and abstracted result.

import (
	"bufio"
	"bytes"
	"encoding/json"
	"fmt"
	"io"
	"math/rand"
	"os"
	"runtime"
	"runtime/debug"
	"sort"
	"strconv"
	"strings"
	"sync"
	"sync/atomic"
	"time"
	"unsafe"

	"github.com/RoaringBitmap/roaring/v2"
	"github.com/RoaringBitmap/roaring/v2/roaring64"
	"github.com/bits-and-blooms/bitset"
)

const NSLOT = 6

// Call is one abstract call. Unused fields are omitted from the JSON.
type Call struct {
	Op   string `json:"op"`
	X    int    `json:"x,omitempty"`
	Y    int    `json:"y,omitempty"`
	Dst  int    `json:"dst,omitempty"`
	A    int    `json:"a,omitempty"`
	As   []int  `json:"as,omitempty"`
	C0   int    `json:"c0,omitempty"`
	C1   int    `json:"c1,omitempty"`
	Side int    `json:"side,omitempty"`
	Xs   []int  `json:"xs,omitempty"`
	W    int    `json:"w,omitempty"`
	J    int    `json:"j,omitempty"`
	Rcp  string `json:"rcp,omitempty"`
	Num  *Num   `json:"num,omitempty"`
	V    int    `json:"v,omitempty"`
}

type SlotAtoms struct {
	S int   `json:"s"`
	A []int `json:"a"`
}
type SlotMsg struct {
	S int    `json:"s"`
	M string `json:"m"`
}
type SlotRep struct {
	S     int        `json:"s"`
	Cow   bool       `json:"cow"`
	Tbl   bool       `json:"tbl"` // parallel tables coherent
	Ch    []ChunkRec `json:"ch"`
	Val   string     `json:"val"`   // Validate() error text, "" = nil
	Sz    Num        `json:"sz"`    // GetSerializedSizeInBytes
	Bd    Num        `json:"bd"`    // BoundSerializedSizeInBytes(N, max+1)
	Mx    int        `json:"mx"`    // ceil((max+1)/65536), 0 when empty
	Trunc int        `json:"trunc"` // 0, or the real number of chunks when ch was truncated
	Gc    Num        `json:"gc"`    // GetCardinality()
	Emp   bool       `json:"emp"`   // IsEmpty()
}

const repChunkCap = 96

type Event struct {
	Call
	Tr    int         `json:"tr"`
	I     int         `json:"i"`
	Post  []SlotAtoms `json:"post"`
	Bad   []SlotMsg   `json:"bad"`
	Rep   []SlotRep   `json:"rep"`
	Ret   any         `json:"ret,omitempty"`
	Arr   *[]int      `json:"arr,omitempty"`
	Panic string      `json:"panic"`
	Skip  bool        `json:"skip,omitempty"`
	Bufch []int       `json:"bufch"` // registered caller buffers whose bytes changed during this call
	Bufrz bool        `json:"bufrz"` // ... one of them holds a frozen-format image (C13: writes on a frozen view copy)
	Aux   bool        `json:"aux"`   // auxiliary Go-side arithmetic checks of this call passed (true when none)
	Argok bool        `json:"argok"` // caller's argument slice unchanged
	Gor   int         `json:"gor"`   // goroutines left behind by a Par* call
	Alias [][2]int    `json:"alias"` // pairs of slots that held the very same *Bitmap after the call (severed afterwards)
	Probe []ProbeRec  `json:"probe"` // write probes run on structurally suspicious sharing
}

// ProbeRec: slot A and slot B referenced the same chunk payload without both being flagged shared
// (or A referenced caller memory unflagged). W: a write through A was visible in B (or in the buffer).
type ProbeRec struct {
	A int  `json:"a"`
	B int  `json:"b"` // 0: caller buffer
	W bool `json:"w"`
	F bool `json:"f"` // b == 0: a changed buffer holds a frozen-format image
}

type callerBuf struct {
	id    int
	bytes []byte
	hash  uint64
	dead  bool // scribbled/discarded: no longer monitored
	orig  []byte
	frz   bool // holds a frozen-format image
}

type Exec struct {
	u       *Universe
	slots   [NSLOT + 1]*roaring.Bitmap
	last    [NSLOT + 1][]int
	taint   [NSLOT + 1]bool // has or may have chunks in caller memory
	ot      *objTable
	w       *bufio.Writer
	tr, idx int
	rng     *rand.Rand
	bufs    []*callerBuf
	keep    []*roaring.Bitmap // keeps COW siblings alive
	events  int
	cover   map[string]int
	noRep   bool
	obs     []int
	// 64-bit family
	mode64   bool
	slots64  [NSLOT + 1]*roaring64.Bitmap
	keep64   []*roaring64.Bitmap
	keepBufs [][]byte
	iters    [4]*iterState
}

func newExec(u *Universe, w *bufio.Writer, tr int, seed int64) *Exec {
	e := &Exec{u: u, w: w, tr: tr, ot: newObjTable(), rng: rand.New(rand.NewSource(seed)), cover: map[string]int{}}
	for i := 1; i <= NSLOT; i++ {
		e.slots[i] = roaring.New()
		e.slots64[i] = roaring64.New()
	}
	e.mode64 = u.Bits == 64
	return e
}

func (e *Exec) emit(v any) {
	b, err := json.Marshal(v)
	if err != nil {
		panic(err)
	}
	e.w.Write(b)
	e.w.WriteByte('\n')
}

func (e *Exec) begin() {
	d := e.u.describe()
	d["tr"] = e.tr
	d["i"] = 0
	e.emit(d)
	e.idx = 0
}

func hashBytes(b []byte) uint64 {
	var h uint64 = 14695981039346656037
	// 8 bytes at a time
	n := len(b) &^ 7
	for i := 0; i < n; i += 8 {
		h ^= *(*uint64)(unsafe.Pointer(&b[i]))
		h *= 1099511628211
	}
	for i := n; i < len(b); i++ {
		h ^= uint64(b[i])
		h *= 1099511628211
	}
	return h
}

func (e *Exec) registerBuf(b []byte) *callerBuf {
	cb := &callerBuf{bytes: b, hash: hashBytes(b), orig: append([]byte(nil), b...)}
	cb.id = e.ot.registerBuf(b)
	e.bufs = append(e.bufs, cb)
	return cb
}

func (e *Exec) registerFrozen(b []byte) *callerBuf {
	cb := e.registerBuf(b)
	cb.frz = true
	return cb
}

func (e *Exec) val1(a int) uint32 { return uint32(e.u.atom(a).Set.min()) }

func (e *Exec) rangeOf(c0, c1 int) (uint64, uint64) {
	lo := func(c int) uint64 {
		if c > e.u.ncell() {
			return e.u.Top + 1
		}
		return e.u.CellLo[c-1]
	}
	return lo(c0), lo(c1)
}

func (e *Exec) target(c int, side int) uint32 {
	if side == 0 {
		return uint32(e.u.CellLo[c-1])
	}
	return uint32(e.u.cellHi(c))
}

func lmOf(u *Universe, v int64) Landmark {
	if v == -1 {
		return Landmark{A: 0}
	}
	if v < 0 {
		return Landmark{A: -1}
	}
	return u.landmark(uint64(v))
}

// build constructs a fresh bitmap holding exactly set s following recipe rcp.
func (e *Exec) build(s iset, rcp string) (*roaring.Bitmap, bool) {
	rb := roaring.New()
	tainted := false
	small := s.smallerThan(400000)
	base := byte('R')
	if len(rcp) > 0 {
		base = rcp[0]
	}
	if !small && base != 'R' {
		base = 'R'
	}
	switch base {
	case 'M', 'm', 'A', 'a', 'B':
		vs := s.values()
		v32 := make([]uint32, len(vs))
		for i, v := range vs {
			v32[i] = uint32(v)
		}
		if base == 'm' || base == 'a' {
			e.rng.Shuffle(len(v32), func(i, j int) { v32[i], v32[j] = v32[j], v32[i] })
		}
		switch base {
		case 'M', 'm':
			rb.AddMany(v32)
		case 'B':
			rb = roaring.BitmapOf(v32...)
		default:
			for _, v := range v32 {
				rb.Add(v)
			}
		}
	case 'D':
		if s.empty() || s.max() < 1<<26 {
			var words []uint64
			if !s.empty() {
				words = make([]uint64, s.max()/64+1)
				for _, sp := range s {
					for v := sp.lo; v <= sp.hi; v++ {
						words[v/64] |= 1 << (v % 64)
					}
				}
			}
			rb = roaring.FromDense(words, true)
			break
		}
		fallthrough
	default: // 'R'
		for _, sp := range s {
			rb.AddRange(sp.lo, sp.hi+1)
		}
	}
	for _, m := range []byte(rcp) {
		switch m {
		case 'o':
			rb.RunOptimize()
		case 'c':
			if !tainted {
				rb.SetCopyOnWrite(true)
			}
		case 'k':
			if !tainted {
				rb.SetCopyOnWrite(true)
				cl := rb.Clone()
				e.keep = append(e.keep, rb)
				rb = cl
			}
		case 'z', 'u', 'r', 'f':
			if raceEnabled && m != 'r' {
				continue
			}
			var data []byte
			var err error
			if m == 'f' {
				data, err = rb.Freeze()
			} else {
				data, err = rb.ToBytes()
			}
			if err != nil {
				// the library refused to serialize its own bitmap: leave rb as is (C05 reports this)
				continue
			}
			nb := roaring.New()
			switch m {
			case 'z':
				cb := e.registerBuf(data)
				_, err = nb.FromBuffer(cb.bytes)
				tainted = true
			case 'u':
				cb := e.registerBuf(data)
				_, err = nb.FromUnsafeBytes(cb.bytes)
				tainted = true
			case 'r':
				_, err = nb.ReadFrom(bytes.NewReader(data))
			case 'f':
				cb := e.registerFrozen(data)
				err = nb.FrozenView(cb.bytes)
				tainted = true
			}
			if err == nil {
				rb = nb
			}
		}
	}
	return rb, tainted
}

// repOf computes the representation record of slot s.
func (e *Exec) repOf(s int) SlotRep {
	rb := e.slots[s]
	v := view32(rb, e.ot)
	r := SlotRep{S: s, Cow: roaring.VerifCOW(rb), Tbl: v.TblOK, Ch: v.Chunks}
	if r.Ch == nil {
		r.Ch = []ChunkRec{}
	}
	if len(r.Ch) > 2*repChunkCap { // keep events small: first and last repChunkCap chunks of very large bitmaps
		r.Trunc = len(r.Ch)
		r.Ch = append(append([]ChunkRec{}, r.Ch[:repChunkCap]...), r.Ch[len(r.Ch)-repChunkCap:]...)
	}
	if err := rb.Validate(); err != nil {
		r.Val = err.Error()
	}
	r.Sz = numFromU64(rb.GetSerializedSizeInBytes())
	r.Gc = numFromU64(rb.GetCardinality())
	r.Emp = rb.IsEmpty()
	if !v.Set.empty() {
		mx := v.Set.max()
		r.Mx = int(mx>>16) + 1
		n := v.Set.count()
		r.Bd = numFromU64(roaring.BoundSerializedSizeInBytes(n.u64(), mx+1))
	}
	return r
}

func sameInts(a, b []int) bool {
	if len(a) != len(b) {
		return false
	}
	for i := range a {
		if a[i] != b[i] {
			return false
		}
	}
	return true
}

// A library call that never returns (an endless loop inside the library) is reported as a hang of that call instead of
// stalling the producer: one monitor goroutine per process looks at the call in flight.
type flight struct {
	e     *Exec
	call  Call
	idx   int
	start time.Time
}

var (
	inFlight   atomic.Pointer[flight]
	flightOnce sync.Once
)

const callTimeout = 300 * time.Second

func flightMonitor() {
	for {
		time.Sleep(2 * time.Second)
		f := inFlight.Load()
		if f == nil || time.Since(f.start) < callTimeout {
			continue
		}
		ev := &Event{Call: f.call, Tr: f.e.tr, I: f.idx, Post: []SlotAtoms{}, Bad: []SlotMsg{}, Rep: []SlotRep{}, Bufch: []int{}, Aux: true, Argok: true,
			Alias: [][2]int{}, Probe: []ProbeRec{}, Panic: "hang: no return within 300s"}
		f.e.emit(ev) // the producer's own goroutine is stuck inside the library: nobody else writes
		f.e.w.Flush()
		os.Exit(0)
	}
}

// run executes one call and logs its event.
func (e *Exec) run(c Call) *Event {
	e.idx++
	markInflight(e.tr, e.idx, c.Op)
	ev := &Event{Call: c, Tr: e.tr, I: e.idx, Post: []SlotAtoms{}, Bad: []SlotMsg{}, Rep: []SlotRep{}, Bufch: []int{}, Aux: true, Argok: true, Alias: [][2]int{}, Probe: []ProbeRec{}}
	var targets []int
	e.obs = e.obs[:0]
	isPar := strings.HasPrefix(c.Op, "Par") || c.Op == "ConcLoad"
	g0 := 0
	if isPar {
		g0 = runtime.NumGoroutine()
	}
	done := make(chan struct{})
	wdGone := make(chan struct{})
	if isPar {
		go func() { // watchdog: a parallel aggregate that never returns is reported, not waited for
			defer close(wdGone)
			select {
			case <-done:
			case <-time.After(40 * time.Second):
				ev.Panic = "hang: no return within 40s"
				e.emit(ev)
				e.w.Flush()
				os.Exit(0)
			}
		}()
	}
	func() {
		defer func() {
			if r := recover(); r != nil {
				ev.Panic = fmt.Sprintf("%v", r)
				if len(ev.Panic) > 200 {
					ev.Panic = ev.Panic[:200]
				}
				_ = debug.Stack
				ev.Ret = nil
			}
		}()
		if !isPar {
			flightOnce.Do(func() { go flightMonitor() })
			inFlight.Store(&flight{e: e, call: c, idx: e.idx, start: time.Now()})
			defer inFlight.Store(nil)
		}
		if e.mode64 {
			targets = e.do64(&ev.Call, ev)
		} else {
			targets = e.do(&ev.Call, ev)
		}
	}()
	close(done)
	for _, t := range targets { // iterators are never used across a mutation of their bitmap
		for i, it := range e.iters {
			if it != nil && it.slot == t {
				e.iters[i] = nil
			}
		}
	}
	if isPar {
		// goroutine census: everything the call started must be gone (allow the runtime a moment)
		<-wdGone // the watchdog goroutine itself is gone before counting
		left := 0
		for try := 0; try < 3000; try++ { // up to ~3 s on a loaded machine; normally the first look suffices
			left = runtime.NumGoroutine() - g0
			if left <= 0 {
				break
			}
			time.Sleep(time.Millisecond)
		}
		if left < 0 {
			left = 0
		}
		ev.Gor = left
	}
	if ev.Skip {
		e.idx--
		return nil
	}
	e.cover[c.Op]++
	if os.Getenv("RVERIF_DEBUG") != "" {
		b, _ := json.Marshal(c)
		fmt.Fprintf(os.Stderr, "tr=%d i=%d %s panic=%q\n", e.tr, e.idx, b, ev.Panic)
	}
	if e.mode64 {
		e.sharing64(ev, targets)
	} else {
		e.sharingProbe(ev, targets)
	}
	// project every slot; log those that changed since last logged and all targets
	isT := map[int]bool{}
	for _, t := range targets {
		isT[t] = true
	}
	isO := map[int]bool{}
	for _, t := range e.obs {
		isO[t] = true
	}
	for s := 1; s <= NSLOT; s++ {
		var vset iset
		wf64 := true
		if e.mode64 {
			vset, wf64 = view64(e.slots64[s])
		} else {
			vset = view32(e.slots[s], nil).Set
		}
		atoms, bad := e.u.project(vset)
		if atoms == nil {
			atoms = []int{}
		}
		if bad != "" {
			ev.Bad = append(ev.Bad, SlotMsg{s, bad})
		}
		chg := !sameInts(atoms, e.last[s])
		if isT[s] || isO[s] || chg {
			ev.Post = append(ev.Post, SlotAtoms{s, atoms})
			if !e.noRep && (isT[s] || chg) {
				if e.mode64 {
					r := e.rep64(s)
					r.Tbl = wf64
					ev.Rep = append(ev.Rep, r)
				} else {
					ev.Rep = append(ev.Rep, e.repOf(s))
				}
			}
		}
		e.last[s] = atoms
	}
	for _, b := range e.bufs {
		if b.dead {
			continue
		}
		if h := hashBytes(b.bytes); h != b.hash {
			ev.Bufch = append(ev.Bufch, b.id)
			ev.Bufrz = ev.Bufrz || b.frz
			b.hash = h
		}
	}
	e.emit(ev)
	e.events++
	return ev
}

func (e *Exec) bm(s int) *roaring.Bitmap { return e.slots[s] }

func (e *Exec) list(xs []int) []*roaring.Bitmap {
	out := make([]*roaring.Bitmap, len(xs))
	for i, s := range xs {
		out[i] = e.slots[s]
	}
	return out
}

func (e *Exec) setSlot(dst int, rb *roaring.Bitmap, taint bool) {
	e.slots[dst] = rb
	e.taint[dst] = taint
}

func (e *Exec) anyTaint(xs ...int) bool {
	for _, s := range xs {
		if s > 0 && e.taint[s] {
			return true
		}
	}
	return false
}

// decodeDense turns a plain bit-vector into an interval set (independent of the library).
func decodeDense(words []uint64) iset {
	var sp []span
	for wi, w := range words {
		for b := 0; b < 64; b++ {
			if w>>uint(b)&1 == 1 {
				v := uint64(wi*64 + b)
				if n := len(sp); n > 0 && sp[n-1].hi+1 == v {
					sp[n-1].hi = v
				} else {
					sp = append(sp, span{v, v})
				}
			}
		}
	}
	return iset(sp)
}

func (e *Exec) projArr(s iset, ev *Event) *[]int {
	atoms, bad := e.u.project(s)
	if bad != "" {
		ev.Bad = append(ev.Bad, SlotMsg{0, "result listing: " + bad})
	}
	if atoms == nil {
		atoms = []int{}
	}
	return &atoms
}

func (e *Exec) do(c *Call, ev *Event) (targets []int) {
	u := e.u
	switch c.Op {
	// ---------------------------------------------------------------- constructors / builders
	case "New":
		e.setSlot(c.Dst, roaring.New(), false)
		return []int{c.Dst}
	case "Build":
		rb, t := e.build(u.setOf(c.As), c.Rcp)
		e.setSlot(c.Dst, rb, t)
		return []int{c.Dst}
	case "BitmapOf":
		vs := make([]uint32, len(c.As))
		for i, a := range c.As {
			vs[i] = e.val1(a)
		}
		e.setSlot(c.Dst, roaring.BitmapOf(vs...), false)
		return []int{c.Dst}
	case "Clone":
		e.setSlot(c.Dst, e.bm(c.X).Clone(), e.taint[c.X])
		return []int{c.Dst, c.X}
	// ---------------------------------------------------------------- point / bulk / range mutation
	case "Add":
		e.bm(c.X).Add(e.val1(c.A))
		return []int{c.X}
	case "AddInt":
		e.bm(c.X).AddInt(int(e.val1(c.A)))
		return []int{c.X}
	case "CheckedAdd":
		ev.Ret = e.bm(c.X).CheckedAdd(e.val1(c.A))
		return []int{c.X}
	case "Remove":
		e.bm(c.X).Remove(e.val1(c.A))
		return []int{c.X}
	case "CheckedRemove":
		ev.Ret = e.bm(c.X).CheckedRemove(e.val1(c.A))
		return []int{c.X}
	case "AddMany":
		vs := make([]uint32, len(c.As))
		for i, a := range c.As {
			vs[i] = e.val1(a)
		}
		e.bm(c.X).AddMany(vs)
		return []int{c.X}
	case "AddRange":
		a, b := e.rangeOf(c.C0, c.C1)
		e.bm(c.X).AddRange(a, b)
		return []int{c.X}
	case "RemoveRange":
		a, b := e.rangeOf(c.C0, c.C1)
		e.bm(c.X).RemoveRange(a, b)
		return []int{c.X}
	case "Flip":
		a, b := e.rangeOf(c.C0, c.C1)
		if c.V == 1 && b < 1<<31 {
			e.bm(c.X).FlipInt(int(a), int(b))
		} else {
			e.bm(c.X).Flip(a, b)
		}
		return []int{c.X}
	case "Clear":
		e.bm(c.X).Clear()
		return []int{c.X}
	case "RunOptimize":
		e.bm(c.X).RunOptimize()
		return []int{c.X}
	case "SetCOW":
		if e.taint[c.X] {
			ev.Skip = true
			return nil
		}
		e.bm(c.X).SetCopyOnWrite(c.V == 1)
		return []int{c.X}
	case "Detach":
		e.bm(c.X).CloneCopyOnWriteContainers()
		return []int{c.X}
	// ---------------------------------------------------------------- binary algebra
	case "And":
		e.bm(c.X).And(e.bm(c.Y))
		e.taint[c.X] = e.anyTaint(c.X, c.Y)
		return []int{c.X, c.Y}
	case "Or":
		e.bm(c.X).Or(e.bm(c.Y))
		e.taint[c.X] = e.anyTaint(c.X, c.Y)
		return []int{c.X, c.Y}
	case "Xor":
		e.bm(c.X).Xor(e.bm(c.Y))
		e.taint[c.X] = e.anyTaint(c.X, c.Y)
		return []int{c.X, c.Y}
	case "AndNot":
		e.bm(c.X).AndNot(e.bm(c.Y))
		e.taint[c.X] = e.anyTaint(c.X, c.Y)
		return []int{c.X, c.Y}
	case "AndS":
		e.setSlot(c.Dst, roaring.And(e.bm(c.X), e.bm(c.Y)), e.anyTaint(c.X, c.Y))
		return []int{c.Dst, c.X, c.Y}
	case "OrS":
		e.setSlot(c.Dst, roaring.Or(e.bm(c.X), e.bm(c.Y)), e.anyTaint(c.X, c.Y))
		return []int{c.Dst, c.X, c.Y}
	case "XorS":
		e.setSlot(c.Dst, roaring.Xor(e.bm(c.X), e.bm(c.Y)), e.anyTaint(c.X, c.Y))
		return []int{c.Dst, c.X, c.Y}
	case "AndNotS":
		e.setSlot(c.Dst, roaring.AndNot(e.bm(c.X), e.bm(c.Y)), e.anyTaint(c.X, c.Y))
		return []int{c.Dst, c.X, c.Y}
	case "AndCard":
		ev.Ret = numFromU64(e.bm(c.X).AndCardinality(e.bm(c.Y)))
	case "OrCard":
		ev.Ret = numFromU64(e.bm(c.X).OrCardinality(e.bm(c.Y)))
	case "Intersects":
		ev.Ret = e.bm(c.X).Intersects(e.bm(c.Y))
	case "Equals":
		ev.Ret = e.bm(c.X).Equals(e.bm(c.Y))
	// ---------------------------------------------------------------- aggregates
	case "FastOr", "HeapOr", "ParOr", "ParHeapOr", "FastAnd", "ParAnd", "HeapXor":
		l := e.list(c.Xs)
		before := append([]*roaring.Bitmap(nil), l...)
		var r *roaring.Bitmap
		if raceEnabled && strings.HasPrefix(c.Op, "Par") {
			// "no conflicting accesses ... to their input bitmaps": while the call runs, other goroutines READ the inputs
			// (reads of a bitmap nobody may write are always allowed); a worker that writes into an input's storage is
			// then a data race the detector reports, whatever the schedule.
			stop := make(chan struct{})
			var wg sync.WaitGroup
			for _, in := range l {
				wg.Add(1)
				go func(b *roaring.Bitmap) {
					defer wg.Done()
					for k := 0; ; k++ {
						select {
						case <-stop:
							return
						default:
						}
						it := b.Iterator()
						for n := 0; it.HasNext() && n < 4096; n++ {
							it.Next()
						}
						b.Contains(uint32(k * 7919))
						runtime.Gosched()
					}
				}(in)
			}
			defer func() { close(stop); wg.Wait() }()
		}
		switch c.Op {
		case "FastOr":
			r = roaring.FastOr(l...)
		case "HeapOr":
			r = roaring.HeapOr(l...)
		case "ParOr":
			r = roaring.ParOr(c.W, l...)
		case "ParHeapOr":
			r = roaring.ParHeapOr(c.W, l...)
		case "FastAnd":
			r = roaring.FastAnd(l...)
		case "ParAnd":
			r = roaring.ParAnd(c.W, l...)
		case "HeapXor":
			r = roaring.HeapXor(l...)
		}
		for i := range l {
			if l[i] != before[i] {
				ev.Argok = false
			}
		}
		e.setSlot(c.Dst, r, e.anyTaint(c.Xs...))
		return append([]int{c.Dst}, c.Xs...)
	case "AndAny":
		l := e.list(c.Xs)
		before := append([]*roaring.Bitmap(nil), l...)
		e.bm(c.X).AndAny(l...)
		for i := range l {
			if l[i] != before[i] {
				ev.Argok = false
			}
		}
		e.taint[c.X] = e.anyTaint(append([]int{c.X}, c.Xs...)...)
		return append([]int{c.X}, c.Xs...)
	// ---------------------------------------------------------------- transforms
	case "FlipS":
		a, b := e.rangeOf(c.C0, c.C1)
		if a < b && a > u.Top {
			ev.Skip = true
			return nil
		}
		var r *roaring.Bitmap
		if c.V == 1 && b < 1<<31 {
			r = roaring.FlipInt(e.bm(c.X), int(a), int(b))
		} else {
			r = roaring.Flip(e.bm(c.X), a, b)
		}
		e.setSlot(c.Dst, r, e.taint[c.X])
		return []int{c.Dst, c.X}
	case "AddOffset":
		d := u.Shifts[c.J-1]
		var r *roaring.Bitmap
		if c.V == 1 && d >= 0 {
			r = roaring.AddOffset(e.bm(c.X), uint32(d))
		} else {
			r = roaring.AddOffset64(e.bm(c.X), d)
		}
		e.setSlot(c.Dst, r, e.taint[c.X])
		return []int{c.Dst, c.X}
	case "DenseRT":
		x := e.bm(c.X)
		var words []uint64
		if c.V&1 == 1 {
			words = make([]uint64, x.DenseSize())
			x.WriteDenseTo(words)
		} else {
			words = x.ToDense()
		}
		xs := view32(x, nil).Set
		want := uint64(0)
		if !xs.empty() {
			want = (xs.max() + 1 + 63) / 64
		}
		ev.Aux = x.DenseSize() == want && uint64(len(words)) == want
		if e.rng.Intn(2) == 0 {
			// the caller's slice is a window into a larger buffer: what lies beyond len(words) is not input
			big := make([]uint64, len(words), len(words)+1024+e.rng.Intn(64))
			copy(big, words)
			tail := big[len(words):cap(big)]
			for i := range tail {
				tail[i] = ^uint64(0)
			}
			words = big
		}
		ev.Arr = e.projArr(decodeDense(words), ev)
		doCopy := c.V&2 == 0
		var r *roaring.Bitmap
		taint := false
		if !doCopy {
			if len(words) > 0 {
				cb := e.registerBuf(unsafe.Slice((*byte)(unsafe.Pointer(&words[0])), 8*len(words)))
				_ = cb
			}
			taint = true
		}
		if c.V&4 == 4 {
			r = roaring.New()
			r.FromDense(words, doCopy)
		} else {
			r = roaring.FromDense(words, doCopy)
		}
		e.setSlot(c.Dst, r, taint)
		return []int{c.Dst, c.X}
	case "BitSetRT":
		x := e.bm(c.X)
		bs := x.ToBitSet()
		ev.Arr = e.projArr(decodeDense(bs.Bytes()), ev)
		nb := bitset.From(append([]uint64(nil), bs.Bytes()...))
		e.setSlot(c.Dst, roaring.FromBitSet(nb), false)
		return []int{c.Dst, c.X}
	// ---------------------------------------------------------------- queries
	case "Contains":
		if c.V == 1 {
			ev.Ret = e.bm(c.X).ContainsInt(int(e.val1(c.A)))
		} else {
			ev.Ret = e.bm(c.X).Contains(e.val1(c.A))
		}
	case "IsEmpty":
		ev.Ret = e.bm(c.X).IsEmpty()
	case "Card":
		ev.Ret = numFromU64(e.bm(c.X).GetCardinality())
	case "Min":
		if len(e.last[c.X]) == 0 {
			ev.Skip = true
			return nil
		}
		ev.Ret = u.landmark(uint64(e.bm(c.X).Minimum()))
	case "Max":
		if len(e.last[c.X]) == 0 {
			ev.Skip = true
			return nil
		}
		ev.Ret = u.landmark(uint64(e.bm(c.X).Maximum()))
	case "Rank":
		ev.Ret = numFromU64(e.bm(c.X).Rank(e.target(c.C0, c.Side)))
	case "Select":
		i := c.Num.u64()
		v, err := e.bm(c.X).Select(uint32(i))
		if err != nil {
			ev.Ret = Landmark{A: 0}
		} else {
			ev.Ret = u.landmark(uint64(v))
		}
		// exact oracle for every index (the specification decides Select at cell boundaries only): the i-th element of the
		// independently projected set
		if want, ok := view32(e.bm(c.X), nil).Set.kth(i); i <= 0xFFFFFFFF && (ok != (err == nil) || ok && want != uint64(v)) {
			ev.Aux = false
		}
	case "CardInRange":
		a, b := e.rangeOf(c.C0, c.C1)
		ev.Ret = numFromU64(e.bm(c.X).CardinalityInRange(a, b))
	case "IntersectsInterval":
		a, b := e.rangeOf(c.C0, c.C1)
		ev.Ret = e.bm(c.X).IntersectsWithInterval(a, b)
	case "NextValue":
		ev.Ret = lmOf(u, e.bm(c.X).NextValue(e.target(c.C0, c.Side)))
	case "PreviousValue":
		ev.Ret = lmOf(u, e.bm(c.X).PreviousValue(e.target(c.C0, c.Side)))
	case "NextAbsentValue":
		ev.Ret = lmOf(u, e.bm(c.X).NextAbsentValue(e.target(c.C0, c.Side)))
	case "PreviousAbsentValue":
		ev.Ret = lmOf(u, e.bm(c.X).PreviousAbsentValue(e.target(c.C0, c.Side)))
	case "ToArray":
		x := e.bm(c.X)
		var arr []uint32
		if c.V == 1 {
			arr = make([]uint32, x.GetCardinality())
			x.ToExistingArray(&arr)
		} else {
			arr = x.ToArray()
		}
		ok := sort.SliceIsSorted(arr, func(i, j int) bool { return arr[i] < arr[j] })
		sp := make([]span, len(arr))
		for i, v := range arr {
			sp[i] = span{uint64(v), uint64(v)}
			if i > 0 && arr[i-1] >= v {
				ok = false
			}
		}
		ev.Aux = ok
		ev.Arr = e.projArr(normalize(sp), ev)
		ev.Ret = numFromU64(uint64(len(arr)))
	case "Stats": // container-kind statistics: counts and values must add up to the bitmap (extension beyond the listed properties)
		st := e.bm(c.X).Stats()
		nk := [3]int{}
		for _, ch := range view32(e.bm(c.X), nil).Chunks {
			if ch.T >= 0 && ch.T <= 2 {
				nk[ch.T]++
			}
		}
		ev.Ret = map[string]any{"card": numFromU64(st.Cardinality), "containers": int(st.Containers),
			"kinds":     []int{int(st.ArrayContainers), int(st.BitmapContainers), int(st.RunContainers)},
			"values":    numFromU64(st.ArrayContainerValues + st.BitmapContainerValues + st.RunContainerValues),
			"viewkinds": []int{nk[0], nk[1], nk[2]}, "hasrun": e.bm(c.X).HasRunCompression()}
	case "String": // String() lists the elements in increasing order as {a,b,c} (truncated after 0x40000 values)
		x := e.bm(c.X)
		set := view32(x, nil).Set
		if !set.smallerThan(200000) {
			ev.Skip = true
			return nil
		}
		str := x.String()
		ok := len(str) >= 2 && str[0] == '{' && str[len(str)-1] == '}'
		var sp []span
		if ok && len(str) > 2 {
			prev := int64(-1)
			for _, f := range strings.Split(str[1:len(str)-1], ",") {
				v, err := strconv.ParseUint(f, 10, 32)
				if err != nil || int64(v) <= prev {
					ok = false
					break
				}
				prev = int64(v)
				sp = append(sp, span{v, v})
			}
		}
		ev.Aux = ok
		ev.Arr = e.projArr(normalize(sp), ev)
		ev.Ret = numFromU64(uint64(len(sp)))
	case "ChecksumEq":
		ev.Ret = e.bm(c.X).Checksum() == e.bm(c.Y).Checksum()
	case "ChecksumRT":
		x := e.bm(c.X)
		data, err := x.ToBytes()
		if err != nil {
			ev.Skip = true
			return nil
		}
		nb := roaring.New()
		if _, err := nb.ReadFrom(bytes.NewReader(data)); err != nil {
			ev.Ret = false
		} else {
			ev.Ret = nb.Checksum() == x.Checksum() && x.Clone().Checksum() == x.Checksum()
		}
	default:
		if e.doIter(c, ev) {
			return nil
		}
		if !e.doSerial(c, ev, &targets) {
			panic("unknown op " + c.Op)
		}
		return targets
	}
	// queries: no target, but operands are observed (post only)
	if c.X > 0 {
		e.obs = append(e.obs, c.X)
	}
	if c.Y > 0 {
		e.obs = append(e.obs, c.Y)
	}
	return nil
}

var _ = io.EOF

func (e *Exec) bufHashesChanged() (changed, frozen bool) {
	for _, b := range e.bufs {
		if !b.dead && hashBytes(b.bytes) != b.hash {
			changed = true
			frozen = frozen || b.frz
		}
	}
	return
}

// sharingProbe: (1) two slots holding the very same *Bitmap: recorded and severed; (2) chunk payloads
// referenced by two slots without both flags, or caller memory referenced unflagged: a write probe
// (Remove v; look; Add v) turns the structural alarm into a behavioural witness or dismisses it.
func (e *Exec) sharingProbe(ev *Event, targets []int) {
	isT := map[int]bool{}
	for _, t := range targets {
		isT[t] = true
	}
	for i := 1; i <= NSLOT; i++ {
		for j := i + 1; j <= NSLOT; j++ {
			if e.slots[i] == e.slots[j] {
				ev.Alias = append(ev.Alias, [2]int{i, j})
				v := j
				if isT[i] && !isT[j] {
					v = i
				}
				e.slots[v] = e.slots[v].Clone()
			}
		}
	}
	type ref struct {
		slot int
		rec  ChunkRec
	}
	byPtr := map[uintptr][]ref{}
	var order []uintptr // deterministic: pointers in order of first appearance
	for s := 1; s <= NSLOT; s++ {
		for _, c := range view32(e.slots[s], e.ot).Chunks {
			if c.Ptr == 0 || c.N == 0 {
				continue
			}
			if _, ok := byPtr[c.Ptr]; !ok {
				order = append(order, c.Ptr)
			}
			byPtr[c.Ptr] = append(byPtr[c.Ptr], ref{s, c})
		}
	}
	rebuild := func(slot int, snap iset) {
		nb := roaring.New()
		for _, sp := range snap {
			nb.AddRange(sp.lo, sp.hi+1)
		}
		e.slots[slot] = nb
		e.taint[slot] = false
	}
	// probe writes through slot a and observes slot b (or the caller buffers when b == 0). The write is
	// Remove(v);Add(v); because a leaked write cannot be undone reliably (the writer may have re-typed
	// its chunk in between), both participants are rebuilt from snapshots taken before the probe when
	// a leak was witnessed, and scribbled caller buffers are restored from their saved copies.
	probeFrz := false
	probe := func(a, b int, v uint32) bool {
		A := e.slots[a]
		if !A.Contains(v) {
			return false
		}
		snapA := view32(A, nil).Set
		var snapB iset
		if b != 0 {
			snapB = view32(e.slots[b], nil).Set
		}
		A.Remove(v)
		w := false
		if b == 0 {
			w, probeFrz = e.bufHashesChanged()
		} else {
			w = !view32(e.slots[b], nil).Set.contains(uint64(v))
		}
		A.Add(v)
		if w {
			rebuild(a, snapA)
			if b != 0 {
				rebuild(b, snapB)
			} else {
				for _, cb := range e.bufs {
					if !cb.dead {
						copy(cb.bytes, cb.orig)
					}
				}
			}
		}
		return w
	}
	done := map[[2]int]bool{}
	tries := map[[2]int]int{} // unwitnessed probes per pair of slots are bounded: a probe walks both bitmaps
	for _, ptr := range order {
		refs := byPtr[ptr]
		if len(refs) >= 2 {
			allFlag := true
			for _, r := range refs {
				allFlag = allFlag && r.rec.S
			}
			if !allFlag {
				if os.Getenv("RVERIF_DEBUG") != "" {
					for _, r := range refs {
						fmt.Fprintf(os.Stderr, "shared payload: slot %d key 0x%x kind %d flag %v\n", r.slot, r.rec.K, r.rec.T, r.rec.S)
					}
				}
				for x := 0; x < len(refs); x++ {
					for y := 0; y < len(refs); y++ {
						if x == y || refs[x].slot == refs[y].slot || done[[2]int{refs[x].slot, refs[y].slot}] || done[[2]int{refs[y].slot, refs[x].slot}] {
							continue
						}
						if tries[[2]int{refs[x].slot, refs[y].slot}]++; tries[[2]int{refs[x].slot, refs[y].slot}] > 6 {
							continue
						}
						w := probe(refs[x].slot, refs[y].slot, uint32(refs[x].rec.First))
						ev.Probe = append(ev.Probe, ProbeRec{refs[x].slot, refs[y].slot, w, false})
						if w {
							done[[2]int{refs[x].slot, refs[y].slot}] = true
						}
					}
				}
			}
		}
		for _, r := range refs {
			if r.rec.M != 0 && !r.rec.S && !done[[2]int{r.slot, 0}] {
				if tries[[2]int{r.slot, 0}]++; tries[[2]int{r.slot, 0}] > 6 {
					continue
				}
				w := probe(r.slot, 0, uint32(r.rec.First))
				ev.Probe = append(ev.Probe, ProbeRec{r.slot, 0, w, w && probeFrz})
				if w {
					done[[2]int{r.slot, 0}] = true
				}
			}
		}
	}
}
