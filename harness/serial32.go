package main

func (e *Exec) doSerial(c *Call, ev *Event, targets *[]int) bool { return false }

func extraCommand(name string, args []string) bool { return false }
