package main

// Serialization family (C05, C06, C13, C08, C10): independent parsers/encoders of the portable and the
// frozen format (written from the published layouts; they share no code with the library), byte-source
// doubles, and the executor ops that log field-level observations for RoaringSerial.tla.

import (
	"bytes"
	"encoding/base64"
	"encoding/binary"
	"errors"
	"fmt"
	"io"
	"math/rand"
	"runtime"
	"sync"
	"sync/atomic"

	"github.com/RoaringBitmap/roaring/v2"
)

// ---------------------------------------------------------------- portable format: independent parser

type PChunk struct {
	K    int  `json:"k"`    // key
	Card int  `json:"card"` // descriptive header value + 1
	T    int  `json:"t"`    // payload kind as the format prescribes: 0 array, 1 bitmap, 2 run
	NR   int  `json:"nr"`   // number of runs (run payload) else 0
	Off  int  `json:"off"`  // offset header entry, -1 when there is no offset header
	Pos  int  `json:"pos"`  // byte position where the payload actually starts
	N    int  `json:"n"`    // number of elements decoded from the payload
	V    bool `json:"v"`    // payload well ordered (array strictly increasing; runs sorted, disjoint, within the chunk)
	Adj  bool `json:"adj"`  // run payload has adjacent (non-maximal) runs
}

type PFields struct {
	OK     bool     `json:"ok"`     // the stream parsed to its end without running out of bytes
	Cookie int      `json:"cookie"` // 12346 | 12347
	N      int      `json:"n"`      // number of chunks
	HasOff bool     `json:"hasoff"`
	Ch     []PChunk `json:"ch"`
	End    int      `json:"end"` // position after the last payload
	Err    string   `json:"err"`
	Trunc  int      `json:"trunc"`
}

const (
	cookieNoRun = 12346
	cookieRun   = 12347
)

func parsePortable(b []byte) (PFields, iset) {
	var f PFields
	f.Ch = []PChunk{}
	pos := 0
	need := func(n int) bool {
		if pos+n > len(b) {
			f.Err = fmt.Sprintf("stream ends at %d, need %d more bytes at %d", len(b), n, pos)
			return false
		}
		return true
	}
	if !need(4) {
		return f, nil
	}
	c := binary.LittleEndian.Uint32(b)
	var runflags []byte
	switch {
	case c&0xFFFF == cookieRun:
		f.Cookie = cookieRun
		f.N = int(c>>16) + 1
		pos = 4
		nb := (f.N + 7) / 8
		if !need(nb) {
			return f, nil
		}
		runflags = b[pos : pos+nb]
		pos += nb
		f.HasOff = f.N >= 4
	case c == cookieNoRun:
		f.Cookie = cookieNoRun
		pos = 4
		if !need(4) {
			return f, nil
		}
		f.N = int(binary.LittleEndian.Uint32(b[pos:]))
		pos += 4
		f.HasOff = true
		if f.N > 65536 {
			f.Err = "more than 65536 chunks"
			return f, nil
		}
	default:
		f.Err = fmt.Sprintf("unknown cookie %d", c)
		return f, nil
	}
	if !need(4 * f.N) {
		return f, nil
	}
	desc := b[pos : pos+4*f.N]
	pos += 4 * f.N
	var offs []byte
	if f.HasOff {
		if !need(4 * f.N) {
			return f, nil
		}
		offs = b[pos : pos+4*f.N]
		pos += 4 * f.N
	}
	var spans []span
	for i := 0; i < f.N; i++ {
		ch := PChunk{K: int(binary.LittleEndian.Uint16(desc[4*i:])), Card: int(binary.LittleEndian.Uint16(desc[4*i+2:])) + 1, Off: -1, Pos: pos, V: true}
		if offs != nil {
			ch.Off = int(binary.LittleEndian.Uint32(offs[4*i:]))
		}
		base := uint64(ch.K) << 16
		isRun := runflags != nil && runflags[i/8]&(1<<(uint(i)%8)) != 0
		switch {
		case isRun:
			ch.T = 2
			if !need(2) {
				return f, nil
			}
			ch.NR = int(binary.LittleEndian.Uint16(b[pos:]))
			pos += 2
			if !need(4 * ch.NR) {
				return f, nil
			}
			prevEnd := -1
			for r := 0; r < ch.NR; r++ {
				st := int(binary.LittleEndian.Uint16(b[pos+4*r:]))
				ln := int(binary.LittleEndian.Uint16(b[pos+4*r+2:]))
				if st+ln > 65535 || st <= prevEnd {
					ch.V = false
					if st+ln > 65535 {
						ln = 65535 - st
					}
				}
				if r > 0 && st == prevEnd+1 {
					ch.Adj = true
				}
				prevEnd = st + ln
				ch.N += ln + 1
				spans = append(spans, span{base + uint64(st), base + uint64(st+ln)})
			}
			pos += 4 * ch.NR
		case ch.Card > 4096:
			ch.T = 1
			if !need(8192) {
				return f, nil
			}
			words := make([]uint64, 1024)
			for w := range words {
				words[w] = binary.LittleEndian.Uint64(b[pos+8*w:])
			}
			for _, sp := range decodeDense(words) {
				ch.N += int(sp.hi-sp.lo) + 1
				spans = append(spans, span{base + sp.lo, base + sp.hi})
			}
			pos += 8192
		default:
			ch.T = 0
			if !need(2 * ch.Card) {
				return f, nil
			}
			prev := -1
			for j := 0; j < ch.Card; j++ {
				v := int(binary.LittleEndian.Uint16(b[pos+2*j:]))
				if v <= prev {
					ch.V = false
				}
				prev = v
				spans = append(spans, span{base + uint64(v), base + uint64(v)})
			}
			ch.N = ch.Card
			pos += 2 * ch.Card
		}
		f.Ch = append(f.Ch, ch)
	}
	f.End = pos
	f.OK = true
	return f, normalize(spans)
}

func truncFields(f PFields) PFields {
	if len(f.Ch) > 2*repChunkCap {
		f.Trunc = len(f.Ch)
		f.Ch = append(append([]PChunk{}, f.Ch[:repChunkCap]...), f.Ch[len(f.Ch)-repChunkCap:]...)
	}
	return f
}

// ---------------------------------------------------------------- portable format: independent encoder

// EncPolicy: the legal choices another implementation may make (C06, read direction).
type EncPolicy struct {
	Cookie int `json:"cookie"` // 0: run cookie only when a run chunk is written; 1: always the run-capable cookie
	Runs   int `json:"runs"`   // 0 never; 1 every chunk as runs; 2 alternate chunks; 3 only chunks where runs are smaller
	Gran   int `json:"gran"`   // run granularity: 0 maximal; 1 split every run in two where possible; 2 singletons (capped); 3 random splits
}

func chunksOf(s iset) (keys []uint64, parts []iset) {
	for _, sp := range s {
		for k := sp.lo >> 16; k <= sp.hi>>16; k++ {
			lo, hi := k<<16, k<<16+0xFFFF
			if sp.lo > lo {
				lo = sp.lo
			}
			if sp.hi < hi {
				hi = sp.hi
			}
			if len(keys) == 0 || keys[len(keys)-1] != k {
				keys = append(keys, k)
				parts = append(parts, nil)
			}
			parts[len(parts)-1] = append(parts[len(parts)-1], span{lo, hi})
		}
	}
	return
}

func encodeLegal(s iset, pol EncPolicy, r *rand.Rand) []byte {
	keys, parts := chunksOf(s)
	n := len(keys)
	type enc struct {
		isRun   bool
		card    int
		payload []byte
	}
	encs := make([]enc, n)
	anyRun := false
	for i := range keys {
		base := keys[i] << 16
		card := 0
		for _, sp := range parts[i] {
			card += int(sp.hi-sp.lo) + 1
		}
		asRun := false
		switch pol.Runs {
		case 1:
			asRun = true
		case 2:
			asRun = i%2 == 0
		case 3:
			sz := 8192
			if card <= 4096 {
				sz = 2 * card
			}
			asRun = 2+4*len(parts[i]) < sz
		}
		var p []byte
		if asRun {
			// choose a run partition of the chunk's elements
			var runs [][2]int
			for _, sp := range parts[i] {
				st, en := int(sp.lo-base), int(sp.hi-base)
				switch pol.Gran {
				case 1:
					if en > st {
						mid := (st + en) / 2
						runs = append(runs, [2]int{st, mid}, [2]int{mid + 1, en})
					} else {
						runs = append(runs, [2]int{st, en})
					}
				case 2:
					if len(runs)+(en-st+1) <= 20000 {
						for v := st; v <= en; v++ {
							runs = append(runs, [2]int{v, v})
						}
					} else {
						runs = append(runs, [2]int{st, en})
					}
				case 3:
					for st <= en {
						ln := en - st + 1
						if ln > 1 && r.Intn(2) == 0 {
							ln = 1 + r.Intn(ln)
						}
						runs = append(runs, [2]int{st, st + ln - 1})
						st += ln
					}
				default:
					runs = append(runs, [2]int{st, en})
				}
			}
			if len(runs) > 65535 {
				asRun = false
			} else {
				p = make([]byte, 2+4*len(runs))
				binary.LittleEndian.PutUint16(p, uint16(len(runs)))
				for j, rr := range runs {
					binary.LittleEndian.PutUint16(p[2+4*j:], uint16(rr[0]))
					binary.LittleEndian.PutUint16(p[4+4*j:], uint16(rr[1]-rr[0]))
				}
			}
		}
		if !asRun {
			if card > 4096 {
				p = make([]byte, 8192)
				for _, sp := range parts[i] {
					for v := sp.lo - base; v <= sp.hi-base; v++ {
						p[v/8] |= 1 << (v % 8)
					}
				}
			} else {
				p = make([]byte, 0, 2*card)
				for _, sp := range parts[i] {
					for v := sp.lo - base; v <= sp.hi-base; v++ {
						p = binary.LittleEndian.AppendUint16(p, uint16(v))
					}
				}
			}
		}
		anyRun = anyRun || asRun
		encs[i] = enc{asRun, card, p}
	}
	var out []byte
	runCookie := (anyRun || pol.Cookie == 1) && n > 0 // n-1 cannot be encoded for n = 0
	hasOff := true
	if runCookie {
		out = binary.LittleEndian.AppendUint32(out, uint32(cookieRun)|uint32(n-1)<<16)
		flags := make([]byte, (n+7)/8)
		for i, e := range encs {
			if e.isRun {
				flags[i/8] |= 1 << (uint(i) % 8)
			}
		}
		out = append(out, flags...)
		hasOff = n >= 4
	} else {
		out = binary.LittleEndian.AppendUint32(out, cookieNoRun)
		out = binary.LittleEndian.AppendUint32(out, uint32(n))
	}
	for i, e := range encs {
		out = binary.LittleEndian.AppendUint16(out, uint16(keys[i]))
		out = binary.LittleEndian.AppendUint16(out, uint16(e.card-1))
	}
	if hasOff {
		off := len(out) + 4*n
		for _, e := range encs {
			out = binary.LittleEndian.AppendUint32(out, uint32(off))
			off += len(e.payload)
		}
	}
	for _, e := range encs {
		out = append(out, e.payload...)
	}
	return out
}

// ---------------------------------------------------------------- frozen format: independent parser

type FChunk struct {
	K     int  `json:"k"`
	T     int  `json:"t"`     // typecode: 1 bitmap, 2 array, 3 run
	Count int  `json:"count"` // raw counts entry
	N     int  `json:"n"`     // elements decoded
	V     bool `json:"v"`
}

type FFields struct {
	OK     bool     `json:"ok"`
	Cookie int      `json:"cookie"` // low 15 bits of the trailing header
	N      int      `json:"n"`      // chunk count (high 17 bits)
	Ch     []FChunk `json:"ch"`
	Len    int      `json:"len"`
	Want   int      `json:"want"` // length implied by the tables: arenas + 5n + 4
	Err    string   `json:"err"`
	Trunc  int      `json:"trunc"`
}

func parseFrozen(b []byte) (FFields, iset) {
	var f FFields
	f.Ch = []FChunk{}
	f.Len = len(b)
	if len(b) < 4 {
		f.Err = "shorter than the header"
		return f, nil
	}
	h := binary.LittleEndian.Uint32(b[len(b)-4:])
	f.Cookie = int(h & 0x7FFF)
	f.N = int(h >> 15)
	n := f.N
	if len(b) < 4+5*n {
		f.Err = "tables do not fit"
		return f, nil
	}
	types := b[len(b)-4-n : len(b)-4]
	counts := b[len(b)-4-3*n : len(b)-4-n]
	keys := b[len(b)-4-5*n : len(b)-4-3*n]
	nb, nr, na := 0, 0, 0
	for i := 0; i < n; i++ {
		c := int(binary.LittleEndian.Uint16(counts[2*i:]))
		switch types[i] {
		case 1:
			nb++
		case 2:
			na += c + 1
		case 3:
			nr += c
		default:
			f.Err = "bad typecode"
			return f, nil
		}
	}
	f.Want = 8192*nb + 4*nr + 2*na + 5*n + 4
	if f.Want != len(b) {
		f.Err = "length mismatch"
		return f, nil
	}
	bp, rp, ap := 0, 8192*nb, 8192*nb+4*nr
	var spans []span
	for i := 0; i < n; i++ {
		k := int(binary.LittleEndian.Uint16(keys[2*i:]))
		c := int(binary.LittleEndian.Uint16(counts[2*i:]))
		ch := FChunk{K: k, T: int(types[i]), Count: c, V: true}
		base := uint64(k) << 16
		switch types[i] {
		case 1:
			words := make([]uint64, 1024)
			for w := range words {
				words[w] = binary.LittleEndian.Uint64(b[bp+8*w:])
			}
			bp += 8192
			for _, sp := range decodeDense(words) {
				ch.N += int(sp.hi-sp.lo) + 1
				spans = append(spans, span{base + sp.lo, base + sp.hi})
			}
		case 2:
			prev := -1
			for j := 0; j <= c; j++ {
				v := int(binary.LittleEndian.Uint16(b[ap+2*j:]))
				if v <= prev {
					ch.V = false
				}
				prev = v
				spans = append(spans, span{base + uint64(v), base + uint64(v)})
			}
			ch.N = c + 1
			ap += 2 * (c + 1)
		case 3:
			prevEnd := -2
			for j := 0; j < c; j++ {
				st := int(binary.LittleEndian.Uint16(b[rp+4*j:]))
				ln := int(binary.LittleEndian.Uint16(b[rp+4*j+2:]))
				if st+ln > 65535 || st <= prevEnd+1 {
					ch.V = false
					if st+ln > 65535 {
						ln = 65535 - st
					}
				}
				prevEnd = st + ln
				ch.N += ln + 1
				spans = append(spans, span{base + uint64(st), base + uint64(st+ln)})
			}
			rp += 4 * c
		}
		f.Ch = append(f.Ch, ch)
	}
	f.OK = true
	return f, normalize(spans)
}

// ---------------------------------------------------------------- byte-source doubles

// chunkReader delivers at most sizes[i%len] bytes per Read call.
type chunkReader struct {
	b       []byte
	pos     int
	sizes   []int
	calls   int
	eofData bool // deliver the last bytes together with io.EOF (allowed by the io.Reader contract)
}

func (c *chunkReader) Read(p []byte) (int, error) {
	if c.pos >= len(c.b) {
		return 0, io.EOF
	}
	n := c.sizes[c.calls%len(c.sizes)]
	c.calls++
	if n > len(p) {
		n = len(p)
	}
	if n > len(c.b)-c.pos {
		n = len(c.b) - c.pos
	}
	copy(p, c.b[c.pos:c.pos+n])
	c.pos += n
	if c.eofData && c.pos == len(c.b) {
		return n, io.EOF
	}
	return n, nil
}

// yieldReader: a plain io.Reader (not a ByteInput) that yields the processor between reads, so that
// concurrent decodes interleave inside the library's pooled reader adapters.
type yieldReader struct {
	b     []byte
	pos   int
	sizes []int
	calls int
}

func (y *yieldReader) Read(p []byte) (int, error) {
	runtime.Gosched()
	if y.pos >= len(y.b) {
		return 0, io.EOF
	}
	n := y.sizes[y.calls%len(y.sizes)]
	y.calls++
	if n > len(p) {
		n = len(p)
	}
	if n > len(y.b)-y.pos {
		n = len(y.b) - y.pos
	}
	copy(p, y.b[y.pos:y.pos+n])
	y.pos += n
	return n, nil
}

var errInjected = errors.New("injected write failure")

// failWriter accepts `budget` bytes in total, then fails (accepting a partial write first when partial is set).
type failWriter struct {
	budget  int
	partial bool
	written int
}

func (w *failWriter) Write(p []byte) (int, error) {
	if len(p) <= w.budget {
		w.budget -= len(p)
		w.written += len(p)
		return len(p), nil
	}
	n := 0
	if w.partial {
		n = w.budget
	}
	w.written += n
	w.budget = 0
	return n, errInjected
}

var chunkings = [][]int{{1}, {2}, {3}, {7}, {1, 2, 3, 5, 8, 13}, {4096}, {1 << 30}, {5, 1 << 30}}

const sentinelLen = 16

// ---------------------------------------------------------------- executor ops

type SerObs struct {
	F     PFields `json:"f"`
	Len   Num     `json:"len"`  // bytes produced
	Gsz   Num     `json:"gsz"`  // GetSerializedSizeInBytes
	Ret   Num     `json:"retn"` // n returned by WriteTo (or len for the other writers)
	Err   bool    `json:"err"`
	Same  bool    `json:"same"`  // the four writers produced identical bytes
	Kinds []int   `json:"kinds"` // in-memory kind of each chunk (from the raw view), for Enc
}

func (e *Exec) serialize(x int, variant int) ([]byte, int64, error) {
	rb := e.bm(x)
	switch variant {
	case 1:
		b, err := rb.ToBytes()
		return b, int64(len(b)), err
	case 2:
		b, err := rb.MarshalBinary()
		return b, int64(len(b)), err
	case 3:
		s, err := rb.ToBase64()
		if err != nil {
			return nil, 0, err
		}
		b, err := base64.StdEncoding.DecodeString(s)
		return b, int64(len(b)), err
	default:
		var buf bytes.Buffer
		n, err := rb.WriteTo(&buf)
		return buf.Bytes(), n, err
	}
}

func (e *Exec) doSerial(c *Call, ev *Event, targets *[]int) bool {
	u := e.u
	switch c.Op {
	case "Ser": // write direction: bytes -> independent parser -> fields (C05 accounting, C06 Enc in Legal)
		rb := e.bm(c.X)
		b, n, err := e.serialize(c.X, c.V)
		obs := SerObs{Len: numFromU64(uint64(len(b))), Gsz: numFromU64(rb.GetSerializedSizeInBytes()), Ret: numFromU64(uint64(n)), Err: err != nil, Same: true}
		if err == nil {
			for v := 0; v < 4; v++ {
				b2, _, err2 := e.serialize(c.X, v)
				if err2 != nil || !bytes.Equal(b, b2) {
					obs.Same = false
				}
			}
			f, set := parsePortable(b)
			obs.F = truncFields(f)
			ev.Arr = e.projArr(set, ev)
		} else {
			obs.F.Ch = []PChunk{}
			ev.Arr = &[]int{}
		}
		obs.Kinds = []int{}
		for i, ch := range view32(rb, nil).Chunks {
			if i < 2*repChunkCap {
				obs.Kinds = append(obs.Kinds, ch.T)
			}
		}
		ev.Ret = obs
		e.obs = append(e.obs, c.X)
		return true
	case "Load": // serialize x, read back into dst through entry point c.V (C05)
		b, _, err := e.serialize(c.X, e.rng.Intn(4))
		if err != nil {
			ev.Skip = true
			return true
		}
		entry := c.V % 6
		reuse := c.W == 1
		var nb *roaring.Bitmap
		if reuse && !e.taint[c.Dst] {
			nb = e.slots[c.Dst]
		} else {
			nb = roaring.New()
			reuse = false
		}
		var n int64
		var lerr error
		posOK := true
		taint := false
		withSentinel := append(append([]byte{}, b...), bytes.Repeat([]byte{0xA5}, sentinelLen)...)
		switch entry {
		case 0:
			rd := bytes.NewReader(withSentinel)
			n, lerr = nb.ReadFrom(rd)
			posOK = rd.Len() == sentinelLen
		case 1:
			rd := &chunkReader{b: withSentinel, sizes: chunkings[c.J%len(chunkings)]}
			if e.rng.Intn(3) == 0 { // the bitmap ends the stream and the reader reports EOF together with the last bytes
				rd = &chunkReader{b: b, sizes: chunkings[c.J%len(chunkings)], eofData: true}
			}
			n, lerr = nb.ReadFrom(rd)
			// a buffered adapter may read ahead only if the contract says so; the property demands exact consumption
			posOK = rd.pos == len(b)
		case 2:
			in := withSentinel
			if e.rng.Intn(3) == 0 {
				in = append([]byte(nil), b...) // a buffer that holds exactly the stream
			}
			cb := e.registerBuf(in)
			n, lerr = nb.FromBuffer(cb.bytes)
			taint = true
		case 3:
			in := withSentinel
			if e.rng.Intn(3) == 0 {
				in = append([]byte(nil), b...)
			}
			cb := e.registerBuf(in)
			n, lerr = nb.FromUnsafeBytes(cb.bytes)
			taint = true
		case 4:
			src := append([]byte(nil), b...)
			lerr = nb.UnmarshalBinary(src)
			n = int64(len(b))
			for i := range src { // UnmarshalBinary copies: what the caller does with the slice afterwards is the caller's business
				src[i] = 0xFF
			}
		case 5:
			n, lerr = nb.FromBase64(base64.StdEncoding.EncodeToString(b))
		}
		ev.Ret = map[string]any{"err": lerr != nil, "n": numFromU64(uint64(n)), "len": numFromU64(uint64(len(b))), "pos": posOK, "entry": entry, "reuse": reuse}
		if lerr == nil {
			e.setSlot(c.Dst, nb, taint)
		} else if reuse {
			e.setSlot(c.Dst, roaring.New(), false) // receiver state after a failed read is unspecified
		}
		*targets = []int{c.Dst, c.X}
		return true
	case "WriteFail": // a writer failing after c.J bytes (of the c.W-th fraction) makes WriteTo return an error
		rb := e.bm(c.X)
		total := int(rb.GetSerializedSizeInBytes())
		budget := 0
		if total > 0 {
			switch c.V % 4 {
			case 0:
				budget = 0
			case 1:
				budget = e.rng.Intn(total)
			case 2:
				budget = total - 1
			case 3:
				budget = e.rng.Intn(minInt(total, 64))
			}
		}
		fw := &failWriter{budget: budget, partial: c.W == 1}
		n, err := rb.WriteTo(fw)
		ev.Ret = map[string]any{"err": err != nil, "nle": int(n) <= fw.written}
		e.obs = append(e.obs, c.X)
		return true
	case "Freeze": // the three frozen writers, sizes, layout (C13)
		rb := e.bm(c.X)
		want := rb.GetFrozenSizeInBytes()
		b1, err1 := rb.Freeze()
		var wbuf bytes.Buffer
		n3, err3 := rb.WriteFrozenTo(&wbuf)
		extra := []int{0, 1, 31, 4096}[c.V%4]
		b2 := make([]byte, int(want)+extra)
		for i := range b2 {
			b2[i] = 0xEE
		}
		n2, err2 := rb.FreezeTo(b2)
		agree := err1 == nil && err2 == nil && err3 == nil && bytes.Equal(b1, wbuf.Bytes()) && n2 <= len(b2) && bytes.Equal(b1, b2[:minInt(n2, len(b2))])
		tailOK := true
		for i := n2; i < len(b2) && err2 == nil; i++ {
			if b2[i] != 0xEE {
				tailOK = false
			}
		}
		// too-small buffers: error and nothing written
		smallOK := true
		for _, sz := range []int{0, int(want) - 1, int(want) / 2} {
			if sz < 0 || uint64(sz) >= want {
				continue
			}
			sb := make([]byte, sz)
			for i := range sb {
				sb[i] = 0xEE
			}
			_, err := rb.FreezeTo(sb)
			if err == nil {
				smallOK = false
			}
			for _, x := range sb {
				if x != 0xEE {
					smallOK = false
				}
			}
		}
		f, set := parseFrozen(b1)
		if len(f.Ch) > 2*repChunkCap {
			f.Trunc = len(f.Ch)
			f.Ch = append(append([]FChunk{}, f.Ch[:repChunkCap]...), f.Ch[len(f.Ch)-repChunkCap:]...)
		}
		ev.Arr = e.projArr(set, ev)
		kinds := []int{}
		for i, ch := range view32(rb, nil).Chunks {
			if i < 2*repChunkCap {
				kinds = append(kinds, ch.T)
			}
		}
		ev.Ret = map[string]any{"f": f, "agree": agree, "tail": tailOK, "small": smallOK, "gsz": numFromU64(want),
			"n1": numFromU64(uint64(len(b1))), "n2": numFromU64(uint64(n2)), "n3": numFromU64(uint64(n3)),
			"err": err1 != nil || err2 != nil || err3 != nil, "kinds": kinds}
		e.obs = append(e.obs, c.X)
		return true
	case "FrozenRT": // Freeze x, view the bytes in dst (C13 + C08)
		rb := e.bm(c.X)
		b, err := rb.Freeze()
		if err != nil {
			ev.Skip = true
			return true
		}
		cb := e.registerFrozen(alignedCopy(b, 32))
		nb := roaring.New()
		var verr error
		if c.V == 1 {
			verr = nb.MustFrozenView(cb.bytes)
		} else {
			verr = nb.FrozenView(cb.bytes)
		}
		ev.Ret = map[string]any{"err": verr != nil}
		if verr == nil {
			e.setSlot(c.Dst, nb, true)
		}
		*targets = []int{c.Dst, c.X}
		return true
	case "LoadLegal": // read direction of C06: bytes built by OUR encoder under policy -> library
		set := u.setOf(c.As)
		pol := EncPolicy{Cookie: c.V & 1, Runs: (c.V >> 1) & 3, Gran: (c.V >> 3) & 3}
		b := encodeLegal(set, pol, e.rng)
		// our own parser must agree with our own encoder
		pf, pset := parsePortable(b)
		ev.Aux = pf.OK && pf.End == len(b) && pset.equal(set)
		nb := roaring.New()
		entry := c.W % 5
		var lerr error
		taint := false
		switch entry {
		case 0:
			_, lerr = nb.ReadFrom(bytes.NewReader(b))
		case 1:
			_, lerr = nb.ReadFrom(&chunkReader{b: b, sizes: chunkings[c.J%len(chunkings)]})
		case 2:
			cb := e.registerBuf(b)
			_, lerr = nb.FromBuffer(cb.bytes)
			taint = true
		case 3:
			cb := e.registerBuf(b)
			_, lerr = nb.FromUnsafeBytes(cb.bytes)
			taint = true
		case 4:
			lerr = nb.UnmarshalBinary(b)
		}
		ev.Ret = map[string]any{"err": lerr != nil, "entry": entry, "cookie": pf.Cookie, "n": pf.N}
		if lerr == nil {
			e.setSlot(c.Dst, nb, taint)
		} else {
			e.setSlot(c.Dst, roaring.New(), false)
		}
		*targets = []int{c.Dst}
		return true
	case "ConcLoad": // independent bitmaps decoded concurrently from independent plain io.Readers (pooled adapters, C12)
		n := len(c.Xs)
		datas := make([][]byte, n)
		for i, x := range c.Xs {
			b, err := e.bm(x).ToBytes()
			if err != nil {
				ev.Skip = true
				return true
			}
			datas[i] = b
		}
		if c.V == 1 && len(datas[0]) > 1 { // a decode that fails first (a truncated stream from a plain reader)
			roaring.New().ReadFrom(&yieldReader{b: datas[0][:len(datas[0])/2], sizes: []int{3}})
		}
		outs := make([]*roaring.Bitmap, n)
		errs := make([]bool, n)
		var wg sync.WaitGroup
		roaring.New().FromBuffer(append([]byte(nil), datas[0]...)) // the byte-buffer pool is not empty when the goroutines start
		for round := 0; round < 4; round++ {
			for i := 0; i < n; i++ {
				wg.Add(1)
				go func(i, round int) {
					defer wg.Done()
					defer func() {
						if r := recover(); r != nil {
							errs[i] = true
						}
					}()
					nb := roaring.New()
					var err error
					switch (c.V + i + round) % 3 { // both process-wide reader pools: the stream adapters and the zero-copy byte buffers
					case 0:
						_, err = nb.ReadFrom(&yieldReader{b: datas[i], sizes: chunkings[(c.J+i)%len(chunkings)]})
					case 1:
						_, err = nb.FromBuffer(append([]byte(nil), datas[i]...))
						runtime.Gosched()
						nb = nb.Clone() // an own copy: the buffer above is private to this goroutine and is dropped
					default:
						_, err = nb.FromUnsafeBytes(append([]byte(nil), datas[i]...))
						runtime.Gosched()
						nb = nb.Clone()
					}
					errs[i] = errs[i] || err != nil
					if err == nil && outs[i] != nil && !outs[i].Equals(nb) { // the same bytes decoded to another set than a round ago
						errs[i] = true
					}
					outs[i] = nb
				}(i, round)
			}
			wg.Wait() // (rounds one after the other: outs[i] / errs[i] are written by one goroutine at a time)
		}
		// burst: many goroutines hammer the zero-copy entry points (one shared pool of byte-buffer readers) on private copies
		// of independent streams; every decode must equal the sequential reference of its own stream
		{
			refs := make([]*roaring.Bitmap, n)
			for i := range refs {
				refs[i] = roaring.New()
				if _, err := refs[i].ReadFrom(bytes.NewReader(datas[i])); err != nil {
					refs[i] = nil
				}
			}
			var bad int32
			var bw sync.WaitGroup
			for g := 0; g < 8; g++ {
				bw.Add(1)
				go func(g int) {
					defer bw.Done()
					defer func() {
						if r := recover(); r != nil {
							atomic.AddInt32(&bad, 1)
						}
					}()
					for it := 0; it < 40; it++ {
						i := (g + it) % n
						if refs[i] == nil {
							continue
						}
						nb := roaring.New()
						buf := append([]byte(nil), datas[i]...)
						var err error
						if (g+it)%2 == 0 {
							_, err = nb.FromBuffer(buf)
						} else {
							_, err = nb.FromUnsafeBytes(buf)
						}
						if err != nil || !nb.Equals(refs[i]) {
							atomic.AddInt32(&bad, 1)
						}
					}
				}(g)
			}
			bw.Wait()
			if bad > 0 {
				errs[0] = true
			}
		}
		*targets = append([]int{}, c.Xs...)
		for i := 0; i < n; i++ {
			if outs[i] == nil || errs[i] {
				outs[i] = roaring.New()
			}
			e.setSlot(4+i, outs[i], false)
			*targets = append(*targets, 4+i)
		}
		ev.Ret = map[string]any{"errs": errs}
		return true
	case "Adopt": // a decoded (untrusted) bitmap placed in a slot by the fuzz driver; its content is what the raw view shows
		*targets = []int{c.Dst}
		return true
	case "Scribble": // overwrite every caller buffer no live un-detached bitmap depends on
		// A buffer is scribbled only when every slot that was loaded from caller memory has been detached.
		for s := 1; s <= NSLOT; s++ {
			if e.taint[s] {
				ev.Skip = true
				return true
			}
		}
		for _, b := range e.bufs {
			if !b.dead {
				for i := range b.bytes {
					b.bytes[i] = byte(0xFF ^ i)
				}
				b.dead = true
			}
		}
		return true
	case "DetachAll": // CloneCopyOnWriteContainers on every slot (so that Scribble becomes legal)
		for s := 1; s <= NSLOT; s++ {
			e.slots[s].CloneCopyOnWriteContainers()
			e.taint[s] = false
		}
		*targets = []int{1, 2, 3, 4, 5, 6}
		return true
	}
	return false
}

func minInt(a, b int) int {
	if a < b {
		return a
	}
	return b
}

// alignedCopy returns a copy of b whose first byte is aligned to `al` bytes.
func alignedCopy(b []byte, al int) []byte {
	buf := make([]byte, len(b)+al)
	off := 0
	for ; off < al; off++ {
		if uintptrOf(buf[off:])%uintptr(al) == 0 {
			break
		}
	}
	out := buf[off : off+len(b) : off+len(b)]
	copy(out, b)
	return out
}

func extraCommand(name string, args []string) bool {
	switch name {
	case "fuzzdec":
		cmdFuzzDec(args)
		return true
	case "bsi":
		cmdBSI(args)
		return true
	case "pargate":
		cmdParGate(args)
		return true
	case "parwalk":
		cmdParWalk(args)
		return true
	case "fuzzdec64":
		cmdFuzzDec64(args)
		return true
	case "dec64":
		dec64Child(args)
		return true
	}
	return false
}
