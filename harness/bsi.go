package main

// Bit-sliced indexes (C19, C20): both implementations behind one adapter, driven by random histories over
// abstract columns / abstract values; one ndjson event per call with the map observed through the read API,
// validated by TraceBSI.tla against BSI.tla.

import (
	"bufio"
	"bytes"
	"flag"
	"fmt"
	"math/big"
	"math/rand"
	"os"
	"runtime"
	"sort"
	"time"

	"github.com/RoaringBitmap/roaring/v2"
	bsi32 "github.com/RoaringBitmap/roaring/v2/BitSliceIndexing"
	"github.com/RoaringBitmap/roaring/v2/roaring64"
)

type BCall struct {
	Op   string `json:"op"`
	X    int    `json:"x,omitempty"`
	Y    int    `json:"y,omitempty"`
	Dst  int    `json:"dst,omitempty"`
	Ys   []int  `json:"ys,omitempty"`
	Col  int    `json:"col,omitempty"`
	Cols *[]int `json:"cols,omitempty"`
	All  bool   `json:"all"`
	Val  int    `json:"val"`
	Vals *[]int `json:"vals,omitempty"`
	Cmp  string `json:"cmp,omitempty"`
	Lo   int    `json:"lo"`
	Hi   int    `json:"hi"`
	Par  int    `json:"par"`
	Auto bool   `json:"auto"`
	Own  bool   `json:"own,omitempty"`  // found set = the index's own existence bitmap object
	More int    `json:"more,omitempty"` // BatchEqual*: this many additional scattered query values that no column can hold (off the value grid)
}

type BObs struct {
	S        int      `json:"s"`
	Ex       []int    `json:"ex"`
	V        [][2]int `json:"v"`
	Card     int      `json:"card"`
	Bad      string   `json:"bad"`
	PlanesOK bool     `json:"planesok"`
}

type BEvent struct {
	BCall
	Tr    int    `json:"tr"`
	I     int    `json:"i"`
	Obs   []BObs `json:"obs"`
	Ret   any    `json:"ret,omitempty"`
	Panic string `json:"panic"`
	Left  int    `json:"left"` // goroutines the call left behind (C12: BSI fan-out / fan-in)
}

// index: the operations both implementations offer, over concrete column ids and concrete (scaled) values
type index interface {
	setValue(col uint64, v *big.Int)
	setMany(cols []uint64, v *big.Int)
	clear(cols []uint64)
	retain(cols []uint64) (dropped int, ok bool)
	getBig(col uint64) (*big.Int, bool)
	exists(col uint64) bool
	card() uint64
	readCheck(cols []uint64) string // cross-check of the read APIs ("" = consistent)
	planesOK() bool
	compare(par int, op string, lo, hi *big.Int, cols []uint64, all, own bool) []uint64
	compareBSI(op string, o index, cols []uint64, all bool) ([]uint64, bool)
	batchEqual(par int, vals []*big.Int) []uint64
	batchEqualValues(par int, vals []*big.Int, cols []uint64, all bool) ([][2]*big.Int, bool)
	minMax(par int, op string, cols []uint64, all bool) *big.Int
	sum(cols []uint64, all bool) (*big.Int, uint64)
	transpose(par int, cols []uint64, all bool) []uint64
	transposeCounts(par int, cols []uint64, all bool, filter []uint64) [][2]uint64
	parOr(par int, os []index)
	add(o index)
	increment(cols []uint64)
	incrementAll()
	clone() index
	retainSet(cols []uint64) index
	marshalRT() (index, error)
	streamRT() (index, error, bool)
	equals(o index) bool
	runOptimize()
	mutateResultProbe() // nothing
}

var opCode = map[string]int{"LT": 1, "LE": 2, "EQ": 3, "GE": 4, "GT": 5, "RANGE": 6, "MIN": 7, "MAX": 8}

// ---------------------------------------------------------------- 64-bit implementation
type ix64 struct {
	b   *roaring64.BSI
	big bool // use the big-value API
	k   uint
}

func bm64of(cols []uint64) *roaring64.Bitmap { return roaring64.BitmapOf(cols...) }
func fs64(x *ix64, cols []uint64, all, own bool) *roaring64.Bitmap {
	if own {
		return x.b.GetExistenceBitmap()
	}
	if all {
		return nil
	}
	return bm64of(cols)
}
func (x *ix64) setValue(c uint64, v *big.Int) {
	if x.big || !v.IsInt64() {
		x.b.SetBigValue(c, v)
	} else {
		x.b.SetValue(c, v.Int64())
	}
}
func (x *ix64) setMany(cols []uint64, v *big.Int) {
	if x.big || !v.IsInt64() {
		x.b.SetBigMany(bm64of(cols), v)
	} else {
		x.b.SetMany(bm64of(cols), v.Int64())
	}
}
func (x *ix64) clear(cols []uint64) { x.b.ClearValues(bm64of(cols)) }
func (x *ix64) retain(cols []uint64) (int, bool) {
	return int(x.b.Retain(bm64of(cols))), true
}
func (x *ix64) getBig(c uint64) (*big.Int, bool) { return x.b.GetBigValue(c) }
func (x *ix64) exists(c uint64) bool             { return x.b.ValueExists(c) }
func (x *ix64) card() uint64                     { return x.b.GetCardinality() }
func (x *ix64) readCheck(cols []uint64) string {
	bigs := x.b.GetBigValues(cols)
	for i, c := range cols {
		v, ok := x.b.GetBigValue(c)
		if ok != (bigs[i] != nil) || (ok && v.Cmp(bigs[i]) != 0) {
			return fmt.Sprintf("GetBigValues disagrees with GetBigValue at column %d", c)
		}
		if ok != x.b.ValueExists(c) {
			return fmt.Sprintf("ValueExists disagrees with GetBigValue at column %d", c)
		}
		if ok && x.b.IsNegative(c) != (v.Sign() < 0) {
			return fmt.Sprintf("IsNegative disagrees with GetBigValue at column %d", c)
		}
	}
	allInt := true
	for _, v := range bigs {
		if v != nil && !v.IsInt64() {
			allInt = false
		}
	}
	if allInt {
		vals, ex := x.b.GetValues(cols)
		for i, c := range cols {
			if ex[i] != (bigs[i] != nil) || (ex[i] && vals[i] != bigs[i].Int64()) {
				return fmt.Sprintf("GetValues disagrees with GetBigValue at column %d", c)
			}
			v1, ok1 := x.b.GetValue(c)
			if ok1 != ex[i] || (ok1 && v1 != vals[i]) {
				return fmt.Sprintf("GetValue disagrees with GetValues at column %d", c)
			}
		}
	}
	return ""
}
func (x *ix64) planesOK() bool {
	ebm, planes := roaring64.VerifPlanes(x.b)
	es, _ := view64(ebm)
	for _, p := range planes {
		ps, _ := view64(p)
		if !ps.minus(es).empty() {
			return false
		}
	}
	return true
}
func (x *ix64) compare(par int, op string, lo, hi *big.Int, cols []uint64, all, own bool) []uint64 {
	f := fs64(x, cols, all, own)
	var r *roaring64.Bitmap
	if x.big || !lo.IsInt64() || !hi.IsInt64() {
		r = x.b.CompareBigValue(par, roaring64.Operation(opCode[op]), lo, hi, f)
	} else {
		r = x.b.CompareValue(par, roaring64.Operation(opCode[op]), lo.Int64(), hi.Int64(), f)
	}
	return take64(r)
}
func (x *ix64) compareBSI(op string, o index, cols []uint64, all bool) ([]uint64, bool) {
	return take64(x.b.CompareBSI(roaring64.Operation(opCode[op]), o.(*ix64).b, fs64(x, cols, all, false))), true
}
func (x *ix64) batchEqual(par int, vals []*big.Int) []uint64 {
	allInt := true
	for _, v := range vals {
		allInt = allInt && v.IsInt64()
	}
	if x.big || !allInt {
		return take64(x.b.BatchEqualBig(par, vals))
	}
	iv := make([]int64, len(vals))
	for i, v := range vals {
		iv[i] = v.Int64()
	}
	return take64(x.b.BatchEqual(par, iv))
}
func (x *ix64) batchEqualValues(par int, vals []*big.Int, cols []uint64, all bool) ([][2]*big.Int, bool) {
	iv := make([]int64, len(vals))
	for i, v := range vals {
		if !v.IsInt64() {
			return nil, false
		}
		iv[i] = v.Int64()
	}
	var out [][2]*big.Int
	for _, p := range x.b.BatchEqualValues(par, iv, fs64(x, cols, all, false)) {
		out = append(out, [2]*big.Int{new(big.Int).SetUint64(p.ColumnID), big.NewInt(p.Value)})
	}
	return out, true
}
func (x *ix64) minMax(par int, op string, cols []uint64, all bool) *big.Int {
	if x.big {
		return x.b.MinMaxBig(par, roaring64.Operation(opCode[op]), fs64(x, cols, all, false))
	}
	return big.NewInt(x.b.MinMax(par, roaring64.Operation(opCode[op]), fs64(x, cols, all, false)))
}
func (x *ix64) sum(cols []uint64, all bool) (*big.Int, uint64) {
	bs, bc := x.b.SumBigValues(fs64(x, cols, all, false))
	if bs.IsInt64() { // Sum returns an int64: it is only asked when the true sum fits
		s, c := x.b.Sum(fs64(x, cols, all, false))
		if x.big {
			return bs, bc
		}
		if big.NewInt(s).Cmp(bs) != 0 || c != bc {
			return big.NewInt(s), c // disagreement between Sum and SumBigValues: report Sum's answer
		}
	}
	return bs, bc
}
func (x *ix64) transpose(par int, cols []uint64, all bool) []uint64 {
	if all {
		return take64(x.b.Transpose())
	}
	return take64(x.b.IntersectAndTranspose(par, bm64of(cols)))
}
func (x *ix64) transposeCounts(par int, cols []uint64, all bool, fvals []uint64) [][2]uint64 {
	// explicit filter set (every value currently stored and a few more): a nil filter defaults to the
	// existence bitmap, i.e. it keeps only values that happen to be existing column ids
	filter := roaring64.BitmapOf(fvals...)
	r := x.b.TransposeWithCounts(par, fs64(x, cols, all, false), filter)
	var out [][2]uint64
	for _, c := range r.GetExistenceBitmap().ToArray() {
		v, _ := r.GetValue(c)
		out = append(out, [2]uint64{c, uint64(v)})
	}
	return out
}
func (x *ix64) parOr(par int, os []index) {
	l := make([]*roaring64.BSI, len(os))
	for i, o := range os {
		l[i] = o.(*ix64).b
	}
	x.b.ParOr(par, l...)
}
func (x *ix64) add(o index)             { x.b.Add(o.(*ix64).b) }
func (x *ix64) increment(cols []uint64) { x.b.Increment(bm64of(cols)) }
func (x *ix64) incrementAll()           { x.b.IncrementAll() }
func (x *ix64) clone() index            { return &ix64{x.b.Clone(), x.big, x.k} }
func (x *ix64) retainSet(cols []uint64) index {
	return &ix64{x.b.NewBSIRetainSet(bm64of(cols)), x.big, x.k}
}
func (x *ix64) marshalRT() (index, error) {
	data, err := x.b.MarshalBinary()
	if err != nil {
		return nil, err
	}
	n := roaring64.NewDefaultBSI()
	if err := n.UnmarshalBinary(data); err != nil {
		return nil, err
	}
	return &ix64{n, x.big, x.k}, nil
}
func (x *ix64) streamRT() (index, error, bool) {
	var buf bytes.Buffer
	if _, err := x.b.WriteTo(&buf); err != nil {
		return nil, err, true
	}
	n := roaring64.NewDefaultBSI()
	if _, err := n.ReadFrom(bytes.NewReader(buf.Bytes())); err != nil {
		return nil, err, true
	}
	return &ix64{n, x.big, x.k}, nil, true
}
func (x *ix64) equals(o index) bool { return x.b.Equals(o.(*ix64).b) }
func (x *ix64) runOptimize()        { x.b.RunOptimize() }
func (x *ix64) mutateResultProbe()  {}

// take64 / take32 read a bitmap returned by a query and then SCRIBBLE on it, as a caller is entitled to: if the
// library handed out one of the index's own bitmaps, the next observation of the stored map shows the damage.
func take64(r *roaring64.Bitmap) []uint64 {
	out := r.ToArray()
	r.Clear()
	r.Add(424242)
	return out
}
func take32(r *roaring.Bitmap) []uint64 {
	out := arr64(r.ToArray())
	r.Clear()
	r.Add(424242)
	return out
}

// ---------------------------------------------------------------- 32-bit implementation
type ix32 struct{ b *bsi32.BSI }

func bm32of(cols []uint64) *roaring.Bitmap {
	r := roaring.New()
	for _, c := range cols {
		r.Add(uint32(c))
	}
	return r
}
func fs32(x *ix32, cols []uint64, all, own bool) *roaring.Bitmap {
	if own {
		return x.b.GetExistenceBitmap()
	}
	if all {
		return nil
	}
	return bm32of(cols)
}
func arr64(a []uint32) []uint64 {
	out := make([]uint64, len(a))
	for i, v := range a {
		out[i] = uint64(v)
	}
	return out
}
func (x *ix32) setValue(c uint64, v *big.Int)     { x.b.SetValue(c, v.Int64()) }
func (x *ix32) setMany(cols []uint64, v *big.Int) { x.b.SetMany(bm32of(cols), v.Int64()) }
func (x *ix32) clear(cols []uint64)               { x.b.ClearValues(bm32of(cols)) }
func (x *ix32) retain(cols []uint64) (int, bool)  { return 0, false }
func (x *ix32) getBig(c uint64) (*big.Int, bool) {
	v, ok := x.b.GetValue(c)
	return big.NewInt(v), ok
}
func (x *ix32) exists(c uint64) bool { return x.b.ValueExists(c) }
func (x *ix32) card() uint64         { return x.b.GetCardinality() }
func (x *ix32) readCheck(cols []uint64) string {
	for _, c := range cols {
		_, ok := x.b.GetValue(c)
		if ok != x.b.ValueExists(c) {
			return fmt.Sprintf("ValueExists disagrees with GetValue at column %d", c)
		}
	}
	return ""
}
func (x *ix32) planesOK() bool {
	ebm, planes := bsi32.VerifPlanes(x.b)
	es := view32(ebm, nil).Set
	for _, p := range planes {
		if !view32(p, nil).Set.minus(es).empty() {
			return false
		}
	}
	return true
}
func (x *ix32) compare(par int, op string, lo, hi *big.Int, cols []uint64, all, own bool) []uint64 {
	return take32(x.b.CompareValue(par, bsi32.Operation(opCode[op]), lo.Int64(), hi.Int64(), fs32(x, cols, all, own)))
}
func (x *ix32) compareBSI(op string, o index, cols []uint64, all bool) ([]uint64, bool) {
	return nil, false
}
func (x *ix32) batchEqual(par int, vals []*big.Int) []uint64 {
	iv := make([]int64, len(vals))
	for i, v := range vals {
		iv[i] = v.Int64()
	}
	return take32(x.b.BatchEqual(par, iv))
}
func (x *ix32) batchEqualValues(par int, vals []*big.Int, cols []uint64, all bool) ([][2]*big.Int, bool) {
	return nil, false
}
func (x *ix32) minMax(par int, op string, cols []uint64, all bool) *big.Int {
	return big.NewInt(x.b.MinMax(par, bsi32.Operation(opCode[op]), fs32(x, cols, all, false)))
}
func (x *ix32) sum(cols []uint64, all bool) (*big.Int, uint64) {
	s, c := x.b.Sum(fs32(x, cols, all, false))
	return big.NewInt(s), c
}
func (x *ix32) transpose(par int, cols []uint64, all bool) []uint64 {
	if all {
		return take32(x.b.Transpose())
	}
	return take32(x.b.IntersectAndTranspose(par, bm32of(cols)))
}
func (x *ix32) transposeCounts(par int, cols []uint64, all bool, fvals []uint64) [][2]uint64 {
	r := x.b.TransposeWithCounts(par, fs32(x, cols, all, false))
	var out [][2]uint64
	for _, c := range r.GetExistenceBitmap().ToArray() {
		v, _ := r.GetValue(uint64(c))
		out = append(out, [2]uint64{uint64(c), uint64(v)})
	}
	return out
}
func (x *ix32) parOr(par int, os []index) {
	l := make([]*bsi32.BSI, len(os))
	for i, o := range os {
		l[i] = o.(*ix32).b
	}
	x.b.ParOr(par, l...)
}
func (x *ix32) add(o index)             { x.b.Add(o.(*ix32).b) }
func (x *ix32) increment(cols []uint64) { x.b.Increment(bm32of(cols)) }
func (x *ix32) incrementAll()           { x.b.IncrementAll() }
func (x *ix32) clone() index            { return &ix32{x.b.Clone()} }
func (x *ix32) retainSet(cols []uint64) index {
	return &ix32{x.b.NewBSIRetainSet(bm32of(cols))}
}
func (x *ix32) marshalRT() (index, error) {
	data, err := x.b.MarshalBinary()
	if err != nil {
		return nil, err
	}
	n := bsi32.NewDefaultBSI()
	if err := n.UnmarshalBinary(data); err != nil {
		return nil, err
	}
	return &ix32{n}, nil
}
func (x *ix32) streamRT() (index, error, bool) { return nil, nil, false }
func (x *ix32) equals(o index) bool {
	// the 32-bit implementation has no Equals: compare existence bitmaps and planes
	a, b := x.b, o.(*ix32).b
	ea, pa := bsi32.VerifPlanes(a)
	eb, pb := bsi32.VerifPlanes(b)
	if !ea.Equals(eb) {
		return false
	}
	for i := 0; i < len(pa) || i < len(pb); i++ {
		switch {
		case i >= len(pa):
			if !pb[i].IsEmpty() {
				return false
			}
		case i >= len(pb):
			if !pa[i].IsEmpty() {
				return false
			}
		default:
			if !pa[i].Equals(pb[i]) {
				return false
			}
		}
	}
	return true
}
func (x *ix32) runOptimize()       { x.b.RunOptimize() }
func (x *ix32) mutateResultProbe() {}

// ---------------------------------------------------------------- driver

type bsiExec struct {
	impl   int // 32 | 64
	k      uint
	big    bool
	nc     int
	colID  []uint64         // abstract column (1-based) -> concrete id; two trailing probe columns never set
	extra  map[int][]uint64 // bulk traces: further concrete ids of an abstract column (a CLASS of columns that always hold the same value)
	owner  map[uint64]int   // concrete id -> abstract column
	slots  [4]index
	auto   [4]bool
	w      *bufio.Writer
	tr, i  int
	r      *rand.Rand
	cover  map[string]int
	events int
}

func (e *bsiExec) scale(v int) *big.Int {
	return new(big.Int).Lsh(big.NewInt(int64(v)), e.k)
}
func (e *bsiExec) unscale(v *big.Int) (int, bool) {
	q := new(big.Int).Rsh(v, e.k)
	back := new(big.Int).Lsh(q, e.k)
	if back.Cmp(v) != 0 || !q.IsInt64() || q.Int64() > 1<<20 || q.Int64() < -(1<<20) {
		return 0, false
	}
	return int(q.Int64()), true
}
func (e *bsiExec) cols(abs []int) []uint64 {
	out := make([]uint64, 0, len(abs))
	for _, a := range abs {
		out = append(out, e.colID[a-1])
		out = append(out, e.extra[a]...)
	}
	return out
}

// absCols: a set of concrete columns as a set of abstract ones; other = it contains a column of no class, or only
// part of a class
func (e *bsiExec) absCols(conc []uint64) ([]int, bool) {
	if e.owner == nil {
		e.owner = map[uint64]int{}
		for i := 0; i < e.nc; i++ {
			e.owner[e.colID[i]] = i + 1
			for _, c := range e.extra[i+1] {
				e.owner[c] = i + 1
			}
		}
	}
	hits := map[int]int{}
	other := false
	for _, c := range conc {
		if a, ok := e.owner[c]; ok {
			hits[a]++
		} else {
			other = true
		}
	}
	out := []int{}
	for a, n := range hits {
		if n != 1+len(e.extra[a]) {
			other = true
		}
		out = append(out, a)
	}
	sort.Ints(out)
	return out, other
}

// offGrid: n distinct scattered values between the smallest and the largest value of the trace's domain that are no
// multiples of 2^k: no column can hold them, so they match nothing (k >= 8 only)
func (e *bsiExec) offGrid(n int) []*big.Int {
	var out []*big.Int
	if e.k < 8 || e.k > 62 {
		return out
	}
	seen := map[string]bool{}
	for len(out) < n {
		a := int64(e.r.Intn(15) - 8)
		off := 1 + e.r.Int63n(int64(1)<<e.k-1)
		v := new(big.Int).Lsh(big.NewInt(a), e.k)
		v.Add(v, big.NewInt(off))
		if !seen[v.String()] {
			seen[v.String()] = true
			out = append(out, v)
		}
	}
	e.r.Shuffle(len(out), func(i, j int) { out[i], out[j] = out[j], out[i] })
	return out
}

func (e *bsiExec) newIndex(auto bool) index {
	lim := new(big.Int).Lsh(big.NewInt(64), e.k) // comfortably above every value the driver uses, incl. sums
	if e.impl == 64 {
		if auto || !lim.IsInt64() {
			return &ix64{roaring64.NewDefaultBSI(), e.big, e.k}
		}
		return &ix64{roaring64.NewBSI(lim.Int64(), -lim.Int64()), e.big, e.k}
	}
	if auto {
		return &ix32{bsi32.NewDefaultBSI()}
	}
	return &ix32{bsi32.NewBSI(lim.Int64(), -lim.Int64())}
}

func (e *bsiExec) observe(s int) BObs {
	o := BObs{S: s, Ex: []int{}, V: [][2]int{}, PlanesOK: true}
	x := e.slots[s]
	func() {
		defer func() {
			if r := recover(); r != nil {
				o.Bad = fmt.Sprintf("read API panicked: %v", r)
			}
		}()
		classExtra := 0
		for a := 1; a <= len(e.colID); a++ {
			c := e.colID[a-1]
			v, ok := x.getBig(c)
			if a > e.nc {
				if ok || x.exists(c) {
					o.Bad = fmt.Sprintf("column %d never set reads as existing", c)
				}
				continue
			}
			if ok {
				av, fine := e.unscale(v)
				if !fine {
					o.Bad = fmt.Sprintf("column %d holds %s, not a value of the trace's domain", c, v.String())
					av = 999999
				}
				o.Ex = append(o.Ex, a)
				o.V = append(o.V, [2]int{a, av})
			}
			if ms := e.extra[a]; len(ms) > 0 { // a class: sampled members (always the last one) must read like the first
				for i := 0; i < 6; i++ {
					m := ms[len(ms)-1]
					if i > 0 {
						m = ms[e.r.Intn(len(ms))]
					}
					mv, mok := x.getBig(m)
					if mok != ok || (ok && mv.Cmp(v) != 0) || x.exists(m) != ok {
						o.Bad = fmt.Sprintf("columns %d and %d were always written together but read differently", c, m)
					}
				}
				if ok {
					classExtra += len(ms)
				}
			}
		}
		o.Card = int(x.card()) - classExtra // a class counts as one column of the specification
		if o.Bad == "" {
			o.Bad = x.readCheck(e.colID)
		}
		o.PlanesOK = x.planesOK()
	}()
	return o
}

func (e *bsiExec) emit(v any) {
	b, err := jsonMarshal(v)
	if err != nil {
		panic(err)
	}
	e.w.Write(b)
	e.w.WriteByte('\n')
}

// current abstract map of slot s as observed (used only to choose arguments inside the documented domain)
func (e *bsiExec) current(s int) map[int]int {
	m := map[int]int{}
	o := e.observe(s)
	for _, p := range o.V {
		m[p[0]] = p[1]
	}
	return m
}

func (e *bsiExec) run(c BCall) {
	e.i++
	markInflight(e.tr, e.i, c.Op)
	ev := BEvent{BCall: c, Tr: e.tr, I: e.i, Obs: []BObs{}}
	g0 := runtime.NumGoroutine()
	fin := make(chan struct{})
	go func() { // own goroutine: a call that never returns is reported, not waited for
		defer close(fin)
		defer func() {
			if r := recover(); r != nil {
				ev.Panic = fmt.Sprintf("%v", r)
				if len(ev.Panic) > 200 {
					ev.Panic = ev.Panic[:200]
				}
				ev.Ret = nil
			}
		}()
		e.do(&ev)
	}()
	select {
	case <-fin:
		// goroutine census: everything the call started must be gone (the runtime gets a moment)
		for try := 0; try < 4000 && runtime.NumGoroutine() > g0; try++ {
			time.Sleep(50 * time.Microsecond)
			if try > 200 {
				time.Sleep(time.Millisecond)
			}
		}
		if n := runtime.NumGoroutine() - g0; n > 0 {
			ev.Left = n
		}
	case <-time.After(60 * time.Second):
		ev = BEvent{BCall: c, Tr: e.tr, I: e.i, Obs: []BObs{}, Panic: "hang: no return within 60 s"}
		e.emit(ev)
		e.w.Flush()
		os.Exit(0) // the stuck goroutines cannot be reclaimed: end this producer, what was recorded is judged
	}
	for s := 1; s <= 3; s++ {
		ev.Obs = append(ev.Obs, e.observe(s))
	}
	e.emit(ev)
	e.events++
	e.cover[c.Op]++
}

func colsOf(c *BCall) []int {
	if c.Cols == nil {
		return nil
	}
	return *c.Cols
}

func (e *bsiExec) do(ev *BEvent) {
	c := &ev.BCall
	x := e.slots[c.X]
	cc := e.cols(colsOf(c))
	switch c.Op {
	case "BNew":
		e.slots[c.Dst] = e.newIndex(c.Auto)
		// (for k = 70 the bounds do not fit NewBSI's int64 arguments: such indexes are always auto-sized)
		e.auto[c.Dst] = c.Auto || (e.impl == 64 && e.k > 56)
	case "BSetValue":
		if len(e.extra[c.Col]) > 0 {
			x.setMany(e.cols([]int{c.Col}), e.scale(c.Val)) // a class is always written as a whole
		} else {
			x.setValue(e.colID[c.Col-1], e.scale(c.Val))
		}
	case "BSetMany":
		x.setMany(cc, e.scale(c.Val))
	case "BClear":
		x.clear(cc)
	case "BRetain":
		d, _ := x.retain(cc)
		ev.Ret = map[string]any{"dropped": d}
	case "BRunOptimize":
		x.runOptimize()
	case "BParOr":
		os := make([]index, len(c.Ys))
		for i, y := range c.Ys {
			os[i] = e.slots[y]
		}
		x.parOr(c.Par, os)
	case "BAdd":
		x.add(e.slots[c.Y])
	case "BIncrement":
		if c.All { // the script lists every existing column: IncrementAll must do the same
			x.incrementAll()
		} else {
			x.increment(cc)
		}
	case "BClone":
		n := x.clone()
		ev.Ret = map[string]any{"err": false, "equal": n.equals(x) && x.equals(n)}
		e.slots[c.Dst] = n
		e.auto[c.Dst] = true
	case "BRetainSet":
		n := x.retainSet(cc)
		ev.Ret = map[string]any{"err": false, "equal": true}
		e.slots[c.Dst] = n
		e.auto[c.Dst] = true
	case "BMarshalRT":
		n, err := x.marshalRT()
		if err != nil {
			ev.Ret = map[string]any{"err": true, "equal": false}
			e.slots[c.Dst] = e.newIndex(true)
		} else {
			ev.Ret = map[string]any{"err": false, "equal": n.equals(x) && x.equals(n)}
			e.slots[c.Dst] = n
		}
		e.auto[c.Dst] = true
	case "BStreamRT":
		n, err, _ := x.streamRT()
		if err != nil {
			ev.Ret = map[string]any{"err": true, "equal": false}
			e.slots[c.Dst] = e.newIndex(true)
		} else {
			ev.Ret = map[string]any{"err": false, "equal": n.equals(x) && x.equals(n)}
			e.slots[c.Dst] = n
		}
		e.auto[c.Dst] = true
	case "BCompare":
		run := func() ([]int, bool) {
			return e.absCols(x.compare(c.Par, c.Cmp, e.scale(c.Lo), e.scale(c.Hi), cc, c.All, c.Own))
		}
		r1, other := run()
		// ResultIndependent: the query answers the same after the caller scribbles on a returned bitmap
		r2, _ := run()
		ev.Ret = map[string]any{"cols": r1, "other": other, "indep": fmt.Sprint(r1) == fmt.Sprint(r2)}
	case "BCompareBSI":
		res, _ := x.compareBSI(c.Cmp, e.slots[c.Y], cc, c.All)
		r1, other := e.absCols(res)
		ev.Ret = map[string]any{"cols": r1, "other": other}
	case "BBatchEqual":
		vals := make([]*big.Int, len(*c.Vals))
		for i, v := range *c.Vals {
			vals[i] = e.scale(v)
		}
		vals = append(vals, e.offGrid(c.More)...)
		r1, other := e.absCols(x.batchEqual(c.Par, vals))
		r2, _ := e.absCols(x.batchEqual(c.Par, vals))
		ev.Ret = map[string]any{"cols": r1, "other": other, "indep": fmt.Sprint(r1) == fmt.Sprint(r2)}
	case "BBatchEqualValues":
		vals := make([]*big.Int, len(*c.Vals))
		for i, v := range *c.Vals {
			vals[i] = e.scale(v)
		}
		vals = append(vals, e.offGrid(c.More)...)
		ps, _ := x.batchEqualValues(c.Par, vals, cc, c.All)
		pairs := [][2]int{}
		other := false
		for _, p := range ps {
			ac, o := e.absCols([]uint64{p[0].Uint64()})
			av, ok := e.unscale(p[1])
			if o || !ok || len(ac) != 1 {
				other = true
				continue
			}
			pairs = append(pairs, [2]int{ac[0], av})
		}
		ev.Ret = map[string]any{"pairs": pairs, "other": other}
	case "BMinMax":
		v := x.minMax(c.Par, c.Cmp, cc, c.All)
		av, ok := e.unscale(v)
		if !ok {
			av = 999999
		}
		ev.Ret = map[string]any{"val": av}
	case "BSum":
		s, n := x.sum(cc, c.All)
		av, ok := e.unscale(s)
		if !ok {
			av = 999999
		}
		ev.Ret = map[string]any{"sum": av, "count": int(n)}
	case "BTranspose":
		res := x.transpose(c.Par, cc, c.All)
		vals := []int{}
		other := false
		for _, v := range res {
			av, ok := e.unscale(new(big.Int).SetUint64(v))
			if !ok {
				other = true
				continue
			}
			vals = append(vals, av)
		}
		ev.Ret = map[string]any{"vals": vals, "other": other}
	case "BTransposeCounts":
		var fvals []uint64
		for _, v := range e.current(c.X) {
			if v >= 0 {
				fvals = append(fvals, e.scale(v).Uint64())
			}
		}
		for v := 0; v <= 16; v++ {
			fvals = append(fvals, e.scale(v).Uint64())
		}
		res := x.transposeCounts(c.Par, cc, c.All, fvals)
		pairs := [][2]int{}
		other := false
		for _, p := range res {
			av, ok := e.unscale(new(big.Int).SetUint64(p[0]))
			if !ok {
				other = true
				continue
			}
			pairs = append(pairs, [2]int{av, int(p[1])})
		}
		ev.Ret = map[string]any{"pairs": pairs, "other": other}
	default:
		panic("unknown BSI op " + c.Op)
	}
}

func cmdBSI(args []string) {
	fs := flag.NewFlagSet("bsi", flag.ExitOnError)
	seed := fs.Int64("seed", 1, "seed")
	traces := fs.Int("traces", 20, "traces")
	steps := fs.Int("steps", 40, "calls per trace")
	out := fs.String("out", "", "ndjson output")
	cover := fs.String("cover", "", "coverage output")
	first := fs.Int("first", 1, "first trace id")
	only := fs.Int("only", 0, "only this trace")
	prof := fs.String("profile", "update", "update (C19) | query (C20)")
	scripts := fs.String("scripts", "", "ndjson scripts generated by TLC from MCBSI.tla (replay mode)")
	mod := fs.Int("mod", 1, "shard count (replay mode)")
	rem := fs.Int("rem", 0, "shard index (replay mode)")
	sample := fs.Float64("sample", 1.0, "fraction of scripts to run (replay mode)")
	opf := fs.String("opfilter", "all", "replay mode: all | update | query")
	fs.String("structures", "", "ignored")
	fs.String("kinds", "", "ignored")
	fs.Parse(args)
	f, err := os.Create(*out)
	if err != nil {
		panic(err)
	}
	w := bufio.NewWriterSize(f, 1<<20)
	cv := coverOut{Ops: map[string]int{}, Kinds: map[string]int{}}
	pool32 := []uint64{0, 1, 2, 65535, 65536, 70000, 131071, 1 << 20, 0xFFFFFFFE, 0xFFFFFFFF, 12345, 4096}
	pool64 := []uint64{0, 1, 65535, 65536, 0xFFFFFFFF, 1 << 32, 1<<32 + 1, 1<<40 + 5, 1 << 63, ^uint64(0), ^uint64(0) - 1, 77}
	if *scripts != "" {
		replayBSI(*scripts, *seed, *first, *only, *mod, *rem, *sample, *opf, w, &cv, pool32, pool64)
		w.Flush()
		f.Close()
		writeCover(*cover, cv)
		return
	}
	for t := 0; t < *traces; t++ {
		id := *first + t
		if *only != 0 && id != *only {
			continue
		}
		r := rand.New(rand.NewSource(*seed*104729 + int64(id)))
		e := &bsiExec{w: w, tr: id, r: r, cover: map[string]int{}, nc: 6, extra: map[int][]uint64{}}
		e.impl = pick(r, []int{32, 64, 64})
		e.k = pick(r, []uint{0, 0, 0, 3, 7, 20, 31, 40, 55})
		bulk := *prof == "bulk"
		if bulk {
			e.k = pick(r, []uint{20, 31, 40})
			e.impl = pick(r, []int{32, 32, 64})
		}
		if e.impl == 64 && r.Intn(6) == 0 && !bulk {
			e.k, e.big = 70, true
		} else if e.impl == 64 && r.Intn(8) == 0 && !bulk {
			e.k, e.big = 60, true // values fit int64, sums of several do not: the big-value API must stay exact
		} else if e.impl == 64 && r.Intn(7) == 0 && !bulk {
			e.k, e.big = pick(r, []uint{61, 61, 62, 63}), true // values straddle the int64 limits: indexes of exactly 64, 65, 66 planes
		} else if e.impl == 64 && r.Intn(5) == 0 {
			e.big = true
		}
		signed := r.Intn(3) != 0 // some traces stay non-negative (Add / Increment / Transpose need it)
		pool := pool32
		if e.impl == 64 {
			pool = pool64
		}
		perm := r.Perm(len(pool))
		for i := 0; i < e.nc+2; i++ {
			e.colID = append(e.colID, pool[perm[i]])
		}
		if bulk {
			// abstract column 6 is a CLASS of more than 100000 concrete columns (written and read as one): the index is
			// large enough for the code paths that are chosen by size (linear scans, batched goroutine fan-out)
			n := 100000 + r.Intn(40000)
			base := uint64(200000 + r.Intn(1000000))
			stride := uint64(1 + r.Intn(3))
			taken := map[uint64]bool{}
			for _, c := range e.colID {
				taken[c] = true
			}
			for i := 0; len(e.extra[6]) < n; i++ {
				c := base + uint64(i)*stride
				if !taken[c] {
					e.extra[6] = append(e.extra[6], c)
				}
			}
		}
		cv.Kinds[fmt.Sprintf("impl%d/k%d/big=%v/signed=%v", e.impl, e.k, e.big, signed)]++
		e.emit(map[string]any{"op": "BU", "tr": id, "i": 0, "nc": e.nc, "impl": e.impl, "k": e.k, "big": e.big, "cols": e.colID})
		for s := 1; s <= 3; s++ {
			e.slots[s] = e.newIndex(true)
		}
		for s := 1; s <= 3; s++ {
			e.run(BCall{Op: "BNew", Dst: s, Auto: r.Intn(3) != 0})
		}
		val := func() int {
			if signed {
				return r.Intn(16) - 8
			}
			return r.Intn(8)
		}
		subset := func() *[]int {
			var s []int
			for a := 1; a <= e.nc; a++ {
				if r.Intn(2) == 0 {
					s = append(s, a)
				}
			}
			if s == nil {
				s = []int{}
			}
			return &s
		}
		existing := func(x int) *[]int { // a subset of the existing columns of slot x
			m := e.current(x)
			s := []int{}
			for a := 1; a <= e.nc; a++ {
				if _, ok := m[a]; ok && r.Intn(3) != 0 {
					s = append(s, a)
				}
			}
			return &s
		}
		allNonNeg := func(x int) bool {
			for _, v := range e.current(x) {
				if v < 0 {
					return false
				}
			}
			return true
		}
		counter := !bulk && *prof != "query" && e.k == 0 && r.Intn(4) == 0
		if counter {
			// a counter index: Increment is the first mutating call on a fresh index, several times over
			x := 1 + r.Intn(3)
			for i, n := 0, 1+r.Intn(4); i < n; i++ {
				e.run(BCall{Op: "BIncrement", X: x, Cols: subset()})
			}
		}
		if !counter && !bulk && *prof != "query" && r.Intn(5) == 0 {
			// ParOr of three indexes on pairwise disjoint columns, then updates of the operands: the result must keep its map
			perm := r.Perm(e.nc)
			owner := map[int][]int{}
			for i, a := range perm {
				sl := 1 + i*3/e.nc
				owner[sl] = append(owner[sl], a+1)
				e.run(BCall{Op: "BSetValue", X: sl, Col: a + 1, Val: val()})
			}
			x := 1 + r.Intn(3)
			ys := []int{}
			for y := 1; y <= 3; y++ {
				if y != x {
					ys = append(ys, y)
				}
			}
			if r.Intn(2) == 0 {
				ys[0], ys[1] = ys[1], ys[0]
			}
			e.run(BCall{Op: "BParOr", X: x, Ys: ys, Par: pick(r, []int{0, 1, 2, 3})})
			for _, y := range ys {
				e.run(BCall{Op: "BSetValue", X: y, Col: owner[y][r.Intn(len(owner[y]))], Val: val()})
			}
			e.run(BCall{Op: "BClear", X: ys[r.Intn(2)], Cols: &[]int{owner[ys[0]][0], owner[ys[1]][0]}})
		}
		if bulk { // the class of 100000+ columns exists in slot 1 (and sometimes 2) from the start
			e.run(BCall{Op: "BSetMany", X: 1, Cols: &[]int{6}, Val: val()})
			if r.Intn(2) == 0 {
				e.run(BCall{Op: "BSetMany", X: 2, Cols: &[]int{5, 6}, Val: val()})
			}
		}
		for st := 0; st < *steps; st++ {
			x := 1 + r.Intn(3)
			if bulk && r.Intn(2) == 0 {
				x = 1
			}
			par := pick(r, []int{0, 1, 2, 3, 16})
			upd := r.Intn(10) < 6
			if *prof == "query" || bulk {
				upd = r.Intn(10) < 3
			}
			if upd {
				switch r.Intn(14) {
				case 0, 1, 2, 3:
					e.run(BCall{Op: "BSetValue", X: x, Col: 1 + r.Intn(e.nc), Val: val()})
				case 4:
					e.run(BCall{Op: "BSetMany", X: x, Cols: subset(), Val: val()})
				case 5:
					e.run(BCall{Op: "BClear", X: x, Cols: subset()})
				case 6:
					if e.impl == 64 && !bulk { // (Retain reports a count of concrete columns)
						e.run(BCall{Op: "BRetain", X: x, Cols: subset()})
					}
				case 7: // ParOr on pairwise disjoint column sets
					ys := []int{}
					used := map[int]bool{}
					for a := range e.current(x) {
						used[a] = true
					}
					for y := 1; y <= 3; y++ {
						if y == x {
							continue
						}
						ok := true
						for a := range e.current(y) {
							if used[a] {
								ok = false
							}
						}
						if ok {
							ys = append(ys, y)
							for a := range e.current(y) {
								used[a] = true
							}
						}
					}
					if len(ys) > 0 {
						e.run(BCall{Op: "BParOr", X: x, Ys: ys, Par: par})
					}
				case 8: // Add on non-negative values
					y := 1 + r.Intn(3)
					if y != x && allNonNeg(x) && allNonNeg(y) {
						e.run(BCall{Op: "BAdd", X: x, Y: y})
					}
				case 9: // Increment existing columns, non-negative, unscaled traces only
					if e.k == 0 && allNonNeg(x) {
						if r.Intn(3) == 0 {
							all := []int{}
							for a := range e.current(x) {
								all = append(all, a)
							}
							sort.Ints(all)
							e.run(BCall{Op: "BIncrement", X: x, Cols: &all, All: true})
						} else if r.Intn(2) == 0 {
							e.run(BCall{Op: "BIncrement", X: x, Cols: subset()}) // also columns that hold nothing yet (they count as 0)
						} else {
							e.run(BCall{Op: "BIncrement", X: x, Cols: existing(x)})
						}
					}
				case 10:
					e.run(BCall{Op: "BClone", X: x, Dst: 1 + r.Intn(3)})
				case 11:
					e.run(BCall{Op: "BRetainSet", X: x, Dst: 1 + r.Intn(3), Cols: subset()})
				case 12:
					e.run(BCall{Op: "BMarshalRT", X: x, Dst: 1 + r.Intn(3)})
				default:
					if e.impl == 64 {
						e.run(BCall{Op: "BStreamRT", X: x, Dst: 1 + r.Intn(3)})
					} else {
						e.run(BCall{Op: "BRunOptimize", X: x})
					}
				}
				continue
			}
			all := r.Intn(3) == 0
			own := all && r.Intn(3) == 0
			fcols := existing(x)
			switch r.Intn(9) {
			case 0, 1, 2:
				lo, hi := val(), val()
				if e.auto[x] {
					// an auto-sized index is sized for the values it holds: constants stay inside their hull
					m := e.current(x)
					if len(m) == 0 {
						continue
					}
					mn, mx := 1<<30, -(1 << 30)
					for _, v := range m {
						if v < mn {
							mn = v
						}
						if v > mx {
							mx = v
						}
					}
					lo, hi = mn+r.Intn(mx-mn+1), mn+r.Intn(mx-mn+1)
				}
				if lo > hi {
					lo, hi = hi, lo
				}
				e.run(BCall{Op: "BCompare", X: x, Cmp: pick(r, []string{"LT", "LE", "EQ", "GE", "GT", "RANGE"}), Lo: lo, Hi: hi, Cols: fcols, All: all, Own: own, Par: par})
			case 3:
				y := 1 + r.Intn(3)
				if e.impl == 64 && y != x {
					e.run(BCall{Op: "BCompareBSI", X: x, Y: y, Cmp: pick(r, []string{"LT", "LE", "EQ", "GE", "GT"}), Cols: fcols, All: all})
				}
			case 4:
				vs := []int{}
				for i, n := 0, r.Intn(6); i < n; i++ {
					vs = append(vs, val())
				}
				if r.Intn(3) == 0 { // a "cube": all values of a bit pattern
					vs = []int{0, 1, 2, 3}
				}
				more := 0
				if e.k >= 8 && e.k <= 62 && (bulk || r.Intn(4) == 0) { // a long scattered query list (no further matches)
					more = 128 + r.Intn(300)
				}
				if e.impl == 64 && r.Intn(2) == 0 && !e.big && !bulk {
					e.run(BCall{Op: "BBatchEqualValues", X: x, Vals: &vs, Cols: fcols, All: all, Par: par, More: more})
				} else {
					e.run(BCall{Op: "BBatchEqual", X: x, Vals: &vs, Par: par, More: more})
				}
			case 5:
				m := e.current(x)
				if (all && len(m) > 0) || (!all && len(*fcols) > 0) {
					e.run(BCall{Op: "BMinMax", X: x, Cmp: pick(r, []string{"MIN", "MAX"}), Cols: fcols, All: all, Par: par})
				}
			case 6:
				if !bulk { // (sums and counts are over concrete columns)
					e.run(BCall{Op: "BSum", X: x, Cols: fcols, All: all})
				}
			case 7:
				if allNonNeg(x) && (e.impl == 64 && e.k <= 55 || e.k <= 28) {
					e.run(BCall{Op: "BTranspose", X: x, Cols: fcols, All: all, Par: par})
				}
			default:
				if allNonNeg(x) && (e.impl == 64 && e.k <= 55 || e.k <= 28) && !bulk {
					e.run(BCall{Op: "BTransposeCounts", X: x, Cols: fcols, All: all, Par: par})
				}
			}
		}
		cv.Traces++
		cv.Events += e.events
		for k, v := range e.cover {
			cv.Ops[k] += v
		}
	}
	w.Flush()
	f.Close()
	writeCover(*cover, cv)
}

type bsiScript struct {
	Calls []BCall `json:"calls"`
}

var bsiUpdateOps = map[string]bool{"BSetValue": true, "BSetMany": true, "BClear": true, "BRetain": true, "BParOr": true, "BAdd": true,
	"BClone": true, "BRetainSet": true, "BMarshalRT": true, "BStreamRT": true}

// replayBSI: every TLC-generated call list is executed on a real index under a random concretisation
// (implementation, value scaling, big-value API, auto-sized or fixed-width, column ids).
func replayBSI(path string, seed int64, first, only, mod, rem int, sample float64, opf string, w *bufio.Writer, cv *coverOut, pool32, pool64 []uint64) {
	in, err := os.Open(path)
	if err != nil {
		panic(err)
	}
	sc := bufio.NewScanner(in)
	sc.Buffer(make([]byte, 1<<20), 1<<24)
	sel := rand.New(rand.NewSource(seed))
	id := first - 1
	lineno := -1
	for sc.Scan() {
		line := sc.Bytes()
		if len(line) == 0 || line[0] != '{' {
			continue
		}
		lineno++
		id++
		keep := sel.Float64() < sample
		if lineno%mod != rem || !keep || (only != 0 && id != only) {
			continue
		}
		var s bsiScript
		if err := jsonUnmarshal(line, &s); err != nil {
			panic(err)
		}
		last := s.Calls[len(s.Calls)-1].Op
		if (opf == "update" && !bsiUpdateOps[last]) || (opf == "query" && bsiUpdateOps[last]) {
			continue
		}
		r := rand.New(rand.NewSource(seed*6700417 + int64(id)))
		e := &bsiExec{w: w, tr: id, r: r, cover: map[string]int{}, nc: 3}
		e.impl = pick(r, []int{32, 64, 64})
		e.k = pick(r, []uint{0, 0, 1, 3, 7, 20, 31, 40, 55})
		if e.impl == 64 && r.Intn(6) == 0 {
			e.k, e.big = 70, true
		} else if e.impl == 64 && r.Intn(7) == 0 {
			e.k, e.big = pick(r, []uint{61, 61, 62, 63}), true
		} else if e.impl == 64 && r.Intn(5) == 0 {
			e.big = true
		}
		pool := pool32
		if e.impl == 64 {
			pool = pool64
		}
		perm := r.Perm(len(pool))
		for i := 0; i < e.nc+2; i++ {
			e.colID = append(e.colID, pool[perm[i]])
		}
		cv.Kinds[fmt.Sprintf("impl%d", e.impl)]++
		e.emit(map[string]any{"op": "BU", "tr": id, "i": 0, "nc": e.nc, "impl": e.impl, "k": e.k, "big": e.big, "cols": e.colID})
		for sl := 1; sl <= 3; sl++ {
			e.slots[sl] = e.newIndex(true)
		}
		for sl := 1; sl <= 3; sl++ {
			e.run(BCall{Op: "BNew", Dst: sl, Auto: r.Intn(3) != 0})
		}
		for _, c := range s.Calls {
			if c.Op == "End" {
				continue
			}
			if e.impl == 32 && (c.Op == "BRetain" || c.Op == "BCompareBSI" || c.Op == "BStreamRT" || c.Op == "BBatchEqualValues") {
				continue
			}
			if (c.Op == "BTranspose" || c.Op == "BTransposeCounts") && !(e.impl == 64 && e.k <= 55 || e.k <= 28) {
				continue
			}
			if c.Op == "BCompare" && !e.auto[c.X] {
				// fixed-width index: any constant of the domain is in range; keep the script's (hull) constants
			}
			if c.Par == 2 {
				c.Par = pick(r, []int{0, 1, 2, 3, 16})
			}
			if c.Op == "BCompare" && c.All && r.Intn(3) == 0 {
				c.Own = true
			}
			e.run(c)
		}
		cv.Traces++
		cv.Events += e.events
		for k, v := range e.cover {
			cv.Ops[k] += v
		}
	}
}
