package main

// Schedule walks of the parallel pipelines (C12, S->C): the state graph of ParAgg.tla, as printed by TLC from
// SchedParAgg.tla (one JSON line per edge), is walked edge by edge on the REAL goroutines.  The verif gate hook
// parks every goroutine of a Par* call before each channel operation; the walker releases exactly the goroutine
// whose model process takes the chosen edge and then checks what the specification says about the successor
// state: where that goroutine parks next (GateOf) and what its receive delivered (Obs).  Edges are chosen
// least-visited-first (nearest uncovered edge by BFS), so that repeated walks cover the whole graph.
//
// A MISMATCH (goroutine parked at another gate, different item received, no arrival although the model says the
// operation is enabled) means that the code has left the model; it is reported, but it is not a verdict about the
// property: the rest of that call is then scheduled at random at the same gates.  What decides C12 is the OUTCOME
// of every walked call: it returns, without panic, with the sequential fold as result, leaving no goroutine.

import (
	"bufio"
	"encoding/json"
	"flag"
	"fmt"
	"math/rand"
	"os"
	"runtime"
	"sort"
	"strings"
	"sync"
	"time"

	"github.com/RoaringBitmap/roaring/v2"
	"github.com/RoaringBitmap/roaring/v2/roaring64"
)

type gateID struct {
	Site string `json:"site"`
	ID   int    `json:"id"`
}

type edgeLine struct {
	F      string   `json:"f"`
	T      string   `json:"t"`
	P      int      `json:"p"`
	Silent bool     `json:"silent"`
	Obs    gateID   `json:"obs"`
	FG     []gateID `json:"fg"`
	TG     []gateID `json:"tg"`
	Final  bool     `json:"final"`
}

type wEdge struct {
	from, to int
	p        int // process id of the model: 100 feeder, 101 appender, 102 main, 1.. workers
	silent   bool
	obs      gateID
	visits   int
}

type wGraph struct {
	nodes  []string
	gates  [][]gateID // per node, in Procs order: 100, 101, 102, 1..NW
	out    [][]int
	final  []bool
	edges  []wEdge
	init   int
	nprocs int
}

func procIndex(p int) int {
	switch p {
	case 100:
		return 0
	case 101:
		return 1
	case 102:
		return 2
	}
	return 2 + p
}

func loadGraph(path string) *wGraph {
	f, err := os.Open(path)
	if err != nil {
		panic(err)
	}
	defer f.Close()
	g := &wGraph{init: -1}
	ids := map[string]int{}
	node := func(s string, gs []gateID) int {
		if id, ok := ids[s]; ok {
			return id
		}
		id := len(g.nodes)
		ids[s] = id
		g.nodes = append(g.nodes, s)
		g.gates = append(g.gates, gs)
		g.out = append(g.out, nil)
		g.final = append(g.final, false)
		return id
	}
	hasIn := map[int]bool{}
	sc := bufio.NewScanner(f)
	sc.Buffer(make([]byte, 1<<20), 1<<26)
	for sc.Scan() {
		var e edgeLine
		if err := json.Unmarshal(sc.Bytes(), &e); err != nil {
			panic(err)
		}
		a := node(e.F, e.FG)
		b := node(e.T, e.TG)
		g.nprocs = len(e.FG)
		if e.Final {
			g.final[b] = true
		}
		hasIn[b] = true
		g.out[a] = append(g.out[a], len(g.edges))
		g.edges = append(g.edges, wEdge{from: a, to: b, p: e.P, silent: e.Silent, obs: e.Obs})
	}
	for i := range g.nodes {
		if !hasIn[i] {
			if g.init >= 0 {
				panic("schedule graph has more than one initial state")
			}
			g.init = i
		}
	}
	if g.init < 0 {
		panic("schedule graph has no initial state")
	}
	return g
}

// ---- the blocking gate ------------------------------------------------------------------------------------

type parked struct {
	gate    gateID
	release chan struct{}
}

type walkSched struct {
	mu      sync.Mutex
	cond    *sync.Cond
	free    bool             // free-run: gates do not block (cleanup after a deviation)
	procOf  map[int64]int    // goroutine -> model process
	parkedP map[int]*parked  // model process -> where it is parked
	obs     map[int][]gateID // model process -> receives reported since its last release
	gone    map[int]bool     // goroutine has been released from its exit gate
	nworker int
	evs     []map[string]any
	tr      int
}

func newWalkSched(tr int) *walkSched {
	s := &walkSched{procOf: map[int64]int{}, parkedP: map[int]*parked{}, obs: map[int][]gateID{}, gone: map[int]bool{}, tr: tr}
	s.cond = sync.NewCond(&s.mu)
	return s
}

func procName(p int) string {
	switch p {
	case 100:
		return "feeder"
	case 101:
		return "appender"
	case 102:
		return "main"
	}
	return fmt.Sprintf("w%d", p)
}

func (s *walkSched) record(p int, site string, id int) {
	s.evs = append(s.evs, map[string]any{"tr": s.tr, "i": len(s.evs) + 1, "p": procName(p), "site": site, "id": id})
}

func (s *walkSched) gate(site string, id int) {
	gid := curGID()
	parts := strings.Split(site, ".")
	role, what := parts[1], parts[2]
	s.mu.Lock()
	p, ok := s.procOf[gid]
	if !ok {
		switch role {
		case "feeder":
			p = 100
		case "appender":
			p = 101
		case "main":
			p = 102
		default:
			s.nworker++
			p = s.nworker
		}
		s.procOf[gid] = p
	}
	switch what {
	case "recv", "recvResult", "recvExpected", "recvBitmap": // after a receive: report what arrived, do not park
		s.obs[p] = append(s.obs[p], gateID{role + "." + what, id})
		s.record(p, what, id)
		s.cond.Broadcast()
		s.mu.Unlock()
		return
	}
	if s.free {
		s.record(p, what, id)
		s.mu.Unlock()
		return
	}
	norm := what
	if norm == "start" {
		norm = "wait"
	}
	pk := &parked{gate: gateID{role + "." + norm, id}, release: make(chan struct{})}
	s.parkedP[p] = pk
	s.cond.Broadcast()
	s.mu.Unlock()
	<-pk.release
	s.mu.Lock()
	s.record(p, what, id) // recorded when the goroutine proceeds to the operation
	s.mu.Unlock()
}

// waitParked waits until model process p is parked and returns its gate
func (s *walkSched) waitParked(p int, timeout time.Duration) (gateID, bool) {
	deadline := time.Now().Add(timeout)
	s.mu.Lock()
	defer s.mu.Unlock()
	for {
		if pk, ok := s.parkedP[p]; ok {
			return pk.gate, true
		}
		if time.Now().After(deadline) {
			return gateID{}, false
		}
		// sync.Cond has no timed wait: poll with a short sleep outside the lock
		s.mu.Unlock()
		time.Sleep(20 * time.Microsecond)
		s.mu.Lock()
	}
}

func (s *walkSched) release(p int) {
	s.mu.Lock()
	pk := s.parkedP[p]
	delete(s.parkedP, p)
	s.obs[p] = nil
	s.mu.Unlock()
	close(pk.release)
}

func (s *walkSched) takeObs(p int) []gateID {
	s.mu.Lock()
	defer s.mu.Unlock()
	return append([]gateID(nil), s.obs[p]...)
}

func (s *walkSched) freeRun() {
	s.mu.Lock()
	s.free = true
	for p, pk := range s.parkedP {
		close(pk.release)
		delete(s.parkedP, p)
	}
	s.mu.Unlock()
}

// ---- one walk ---------------------------------------------------------------------------------------------

type walkDev struct {
	Kind   string         `json:"kind"` // violation (outcome of the call) | mismatch (code left the model graph)
	Tr     int            `json:"tr"`
	Step   int            `json:"step"`
	What   string         `json:"what"`
	Detail map[string]any `json:"detail"`
	Path   []int          `json:"path"`
}

const walkTimeout = 20 * time.Second // a call that makes no progress for this long hangs
const stepTimeout = 3 * time.Second  // a guided step that does not arrive where the model says is a mismatch

// nextEdge: an unvisited out-edge if there is one, else the first edge of a shortest path to an unvisited edge,
// else a random out-edge
func (g *wGraph) nextEdge(cur int, r *rand.Rand) int {
	outs := g.out[cur]
	var fresh []int
	for _, e := range outs {
		if g.edges[e].visits == 0 {
			fresh = append(fresh, e)
		}
	}
	if len(fresh) > 0 {
		return fresh[r.Intn(len(fresh))]
	}
	// BFS
	first := map[int]int{cur: -1}
	queue := []int{cur}
	for len(queue) > 0 {
		n := queue[0]
		queue = queue[1:]
		perm := r.Perm(len(g.out[n]))
		for _, k := range perm {
			e := g.out[n][k]
			fe := first[n]
			if fe == -1 {
				fe = e
			}
			if g.edges[e].visits == 0 {
				return fe
			}
			if _, seen := first[g.edges[e].to]; !seen {
				first[g.edges[e].to] = fe
				queue = append(queue, g.edges[e].to)
			}
		}
	}
	return outs[r.Intn(len(outs))]
}

func walkOnce(g *wGraph, cfg *parConfig, tr int, r *rand.Rand, forced []int, randomOnly bool) (evs []map[string]any, dev, mismatch *walkDev, steps int) {
	call := parPrepare(cfg, r)
	s := newWalkSched(tr)
	setGateFunc(s.gate)
	baseline := runtime.NumGoroutine()
	done := make(chan string, 1)
	go func() {
		defer func() {
			if p := recover(); p != nil {
				s.mu.Lock()
				s.record(102, "panic", 0)
				s.mu.Unlock()
				done <- "panic"
			}
		}()
		done <- call()
	}()
	var path []int
	fail := func(step int, what string, detail map[string]any) *walkDev {
		return &walkDev{Tr: tr, Step: step, What: what, Detail: detail, Path: append([]int(nil), path...)}
	}
	cur := g.init
	res := ""
	returned := false
	if randomOnly { // the code has left the model on earlier walks: schedule this call at random from the start
		dev = fail(0, "model-abandoned", nil)
	}
	for step := 0; dev == nil; step++ {
		steps = step
		if len(g.out[cur]) == 0 || g.final[cur] {
			break
		}
		var ei int
		if forced != nil {
			if step >= len(forced) {
				break
			}
			ei = forced[step]
			if g.edges[ei].from != cur { // the path was recorded on another run of the model graph
				dev = fail(step, "replay-path-mismatch", nil)
				break
			}
		} else {
			ei = g.nextEdge(cur, r)
		}
		e := &g.edges[ei]
		p := e.p
		if !e.silent {
			pi := procIndex(p)
			from := g.gates[cur][pi]
			if from.Site != "none" {
				at, ok := s.waitParked(p, stepTimeout)
				if !ok {
					dev = fail(step, "not-parked", map[string]any{"proc": procName(p), "expected": from})
					break
				}
				if at != from {
					dev = fail(step, "parked-elsewhere", map[string]any{"proc": procName(p), "expected": from, "at": at})
					break
				}
				s.release(p)
			}
			to := g.gates[e.to][pi]
			if to.Site != "none" {
				at, ok := s.waitParked(p, stepTimeout)
				if !ok {
					dev = fail(step, "operation-did-not-complete", map[string]any{"proc": procName(p), "released_from": from, "expected": to})
					break
				}
				// what the receive delivered decides between sibling edges (select) and must match the model
				got := s.takeObs(p)
				gobs := gateID{"none", 0}
				if len(got) > 0 {
					gobs = got[len(got)-1]
				}
				if len(got) > 1 {
					dev = fail(step, "more-than-one-receive", map[string]any{"proc": procName(p), "received": got})
					break
				}
				if gobs != e.obs || at != to {
					alt := -1
					for _, e2 := range g.out[cur] {
						x := &g.edges[e2]
						if x.p == p && !x.silent && x.obs == gobs && g.gates[x.to][pi] == at {
							alt = e2
						}
					}
					if alt < 0 {
						dev = fail(step, "no-model-edge-for-observation", map[string]any{"proc": procName(p), "released_from": from,
							"model_obs": e.obs, "model_next": to, "real_obs": gobs, "real_next": at})
						break
					}
					ei = alt
					e = &g.edges[ei]
				}
			} else if e.obs.Site == "none" && from.Site != "none" {
				// released into an operation after which it does not park (unbuffered send, return): give it the
				// time to get there, so that the partner's select sees it (coverage of both select branches only)
				time.Sleep(150 * time.Microsecond)
			} else if e.obs.Site != "none" {
				// the goroutine does not park again (it returns or blocks in an unbuffered operation): wait for the report
				deadline := time.Now().Add(stepTimeout)
				for len(s.takeObs(p)) == 0 && time.Now().Before(deadline) {
					time.Sleep(20 * time.Microsecond)
				}
				got := s.takeObs(p)
				if len(got) != 1 || got[0] != e.obs {
					dev = fail(step, "receive-mismatch", map[string]any{"proc": procName(p), "model_obs": e.obs, "real_obs": got})
					break
				}
			}
		}
		e.visits++
		path = append(path, ei)
		cur = e.to
	}
	// The walk has either reached the final state of the model (every process Done) or left the model (dev is a
	// MISMATCH between code and model, which by itself says nothing about the property).  In the second case the
	// rest of the call is scheduled at random at the same gates (one parked goroutine released at a time), so that
	// the code is still driven through schedules the Go runtime would not produce.  What decides C12 is the outcome.
	mm := dev
	dev = nil
	if mm != nil {
		mm.Kind = "mismatch"
	}
	last := time.Now()
	for !returned || mm != nil {
		select {
		case res = <-done:
			returned = true
		default:
		}
		if mm == nil {
			if returned || time.Since(last) > walkTimeout {
				break
			}
			time.Sleep(20 * time.Microsecond)
			continue
		}
		s.mu.Lock()
		var ps []int
		for p := range s.parkedP {
			ps = append(ps, p)
		}
		s.mu.Unlock()
		if len(ps) > 0 {
			sort.Ints(ps)
			s.release(ps[r.Intn(len(ps))])
			last = time.Now()
			time.Sleep(30 * time.Microsecond)
			continue
		}
		if returned && runtime.NumGoroutine() <= baseline {
			break
		}
		if time.Since(last) > walkTimeout || (returned && time.Since(last) > 3*time.Second) {
			break
		}
		time.Sleep(20 * time.Microsecond)
	}
	viol := func(what string, detail map[string]any) {
		dev = fail(steps, what, detail)
		dev.Kind = "violation"
		if mm != nil {
			dev.Detail = map[string]any{"outcome": detail, "after_mismatch": mm.What, "mismatch_step": mm.Step}
		}
	}
	switch {
	case !returned:
		viol("call-did-not-return", nil)
	case res != "returned":
		viol(res, nil)
	default:
		s.mu.Lock()
		left := len(s.parkedP)
		s.mu.Unlock()
		if left != 0 && mm == nil { // model final, but a goroutine is still parked at a gate
			mm = fail(steps, "goroutine-still-parked-in-final-state", map[string]any{"count": left})
			mm.Kind = "mismatch"
		}
	}
	// cleanup: let everything run to completion; nothing may be left behind
	s.freeRun()
	if !returned {
		select {
		case <-done:
		case <-time.After(walkTimeout):
		}
	}
	if dev == nil {
		deadline := time.Now().Add(5 * time.Second)
		for runtime.NumGoroutine() > baseline && time.Now().Before(deadline) {
			time.Sleep(100 * time.Microsecond)
		}
		if n := runtime.NumGoroutine(); n > baseline {
			viol("goroutine-leak", map[string]any{"goroutines_before": baseline, "after": n})
		}
	}
	s.mu.Lock()
	evs = append([]map[string]any(nil), s.evs...)
	s.mu.Unlock()
	return evs, dev, mm, steps
}

var (
	gateFnMu  sync.Mutex
	gateFn    func(string, int)
	gateFnSet bool
)

func setGateFunc(f func(string, int)) {
	gateFnMu.Lock()
	gateFn = f
	if !gateFnSet {
		gateFnSet = true
		hook := func(site string, id int) {
			gateFnMu.Lock()
			c := gateFn
			gateFnMu.Unlock()
			if c != nil {
				c(site, id)
			}
		}
		roaring.VerifGate = hook
		roaring64.VerifGate = hook
	}
	gateFnMu.Unlock()
}

func cmdParWalk(args []string) {
	fs := flag.NewFlagSet("parwalk", flag.ExitOnError)
	seed := fs.Int64("seed", 1, "seed")
	traces := fs.Int("traces", 100, "maximal number of walks")
	out := fs.String("out", "", "ndjson output (gate events, validated by TraceParAgg)")
	cover := fs.String("cover", "", "coverage json")
	first := fs.Int("first", 1, "first trace id")
	cfgName := fs.String("profile", "", "configuration name")
	graph := fs.String("scripts", "", "edge lines printed by TLC from SchedParAgg")
	pathFile := fs.String("path", "", "replay: json list of edge indices")
	fs.Int("only", 0, "ignored (replay uses -path)")
	budget := fs.Int("budget", 240, "seconds after which no new walk is started")
	record := fs.Int("record", 40, "number of walks whose gate events are written to -out (for TraceParAgg)")
	fs.Int("steps", 0, "ignored")
	fs.Parse(args)
	var cfg *parConfig
	for i := range parConfigs {
		if parConfigs[i].Name == *cfgName {
			cfg = &parConfigs[i]
		}
	}
	if cfg == nil {
		panic("unknown configuration " + *cfgName)
	}
	g := loadGraph(*graph)
	f, err := os.Create(*out)
	if err != nil {
		panic(err)
	}
	w := bufio.NewWriterSize(f, 1<<20)
	cv := coverOut{Ops: map[string]int{}, Kinds: map[string]int{}}
	var devs, mms []*walkDev
	nmis, nrandom := 0, 0
	t0 := time.Now()
	var forced []int
	if *pathFile != "" {
		b, err := os.ReadFile(*pathFile)
		if err != nil {
			panic(err)
		}
		json.Unmarshal(b, &forced)
		*traces = 1
		if forced == nil {
			forced = []int{}
		}
	}
	for t := 0; t < *traces; t++ {
		id := *first + t
		r := rand.New(rand.NewSource(*seed*7368787 + int64(id)))
		if time.Since(t0) > time.Duration(*budget)*time.Second {
			break
		}
		randomOnly := nmis >= 3 && forced == nil
		if randomOnly {
			if nrandom++; nrandom > 300 {
				break
			}
		}
		evs, dev, mm, steps := walkOnce(g, cfg, id, r, forced, randomOnly)
		emit := func(m map[string]any) {
			b, _ := jsonMarshal(m)
			w.Write(b)
			w.WriteByte('\n')
		}
		for _, e := range evs {
			cv.Ops[fmt.Sprint(e["p"])[:1]+"."+fmt.Sprint(e["site"])]++
		}
		if dev != nil {
			devs = append(devs, dev)
		}
		if mm != nil {
			nmis++
			if len(mms) < 3 && mm.What != "model-abandoned" {
				mms = append(mms, mm)
			}
		}
		if t < *record && dev == nil && mm == nil { // walks that stayed inside the model are also validated by TraceParAgg
			emit(map[string]any{"tr": id, "i": 0, "p": "reset", "site": cfg.Name, "id": 0})
			for _, e := range evs {
				emit(e)
			}
			emit(map[string]any{"tr": id, "i": len(evs) + 1, "p": "main", "site": "returned", "id": 0})
			cv.Events += len(evs) + 2
		}
		cv.Traces++
		cv.Kinds["walk_events"] += len(evs)
		cv.Kinds["steps"] += steps
		if dev != nil && (dev.What == "call-did-not-return" || dev.What == "goroutine-leak" || len(devs) >= 3) {
			break // goroutines of the failed call may still be around: do not start another walk in this process
		}
		if g.covered() == len(g.edges) && forced == nil {
			break
		}
	}
	setGateFunc(nil)
	w.Flush()
	f.Close()
	if os.Getenv("PARWALK_DEBUG") != "" {
		n := 0
		for i := range g.edges {
			e := &g.edges[i]
			if e.visits == 0 && n < 12 {
				n++
				fmt.Fprintf(os.Stderr, "uncovered: p=%d silent=%v obs=%v from=%s\n   to=%s\n", e.p, e.silent, e.obs, g.nodes[e.from], g.nodes[e.to])
			}
		}
	}
	cv.Kinds["schedule_edges_total"] = len(g.edges)
	cv.Kinds["schedule_edges_walked"] = g.covered()
	cv.Kinds["schedule_states_total"] = len(g.nodes)
	cv.Kinds["schedule_model_mismatches"] = nmis
	writeCover(*cover, cv)
	if *cover != "" {
		b, _ := json.Marshal(map[string]any{"violations": devs, "mismatches": mms})
		os.WriteFile(*cover+".dev", b, 0o644)
	}
}

func (g *wGraph) covered() int {
	n := 0
	for i := range g.edges {
		if g.edges[i].visits > 0 {
			n++
		}
	}
	return n
}
