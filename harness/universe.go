package main

// Universe = a finite partition of [0, 2^Bits) into atoms grouped in cells (DESIGN §3).
// The harness only ever (a) builds real arguments from atoms and (b) counts, per atom, how many
// integers of a real bitmap fall into it.

import (
	"fmt"
	"sort"
)

type Atom struct {
	ID     int // 1-based
	Cell   int // 1-based
	Set    iset
	W      Num
	Single bool
	Lo, Hi int // rank of min / max element among all atoms
}

type seg struct {
	lo, hi uint64
	atom   int
}

type Universe struct {
	Bits   int
	Top    uint64
	CellLo []uint64 // CellLo[c-1] = first integer of cell c
	Atoms  []Atom   // Atoms[id-1]
	segs   []seg
	Shifts []int64
	Sh     [][]int
	Name   string
}

func (u *Universe) ncell() int { return len(u.CellLo) }
func (u *Universe) cellHi(c int) uint64 {
	if c == len(u.CellLo) {
		return u.Top
	}
	return u.CellLo[c] - 1
}
func (u *Universe) atom(id int) *Atom { return &u.Atoms[id-1] }

// newUniverse builds a universe from explicit cells; parts[c] lists the atoms of cell c+1 and must
// partition it exactly (checked).
func newUniverse(bits int, cellLo []uint64, parts [][]iset) (*Universe, error) {
	u := &Universe{Bits: bits, CellLo: cellLo}
	if bits == 32 {
		u.Top = 0xFFFFFFFF
	} else {
		u.Top = ^uint64(0)
	}
	if len(cellLo) == 0 || cellLo[0] != 0 || len(parts) != len(cellLo) {
		return nil, fmt.Errorf("bad cells")
	}
	for c := 1; c <= len(cellLo); c++ {
		if c > 1 && cellLo[c-1] <= cellLo[c-2] {
			return nil, fmt.Errorf("cells not increasing")
		}
		lo, hi := cellLo[c-1], u.cellHi(c)
		var all []span
		ps := append([]iset(nil), parts[c-1]...)
		sort.Slice(ps, func(i, j int) bool { return ps[i].min() < ps[j].min() })
		for _, p := range ps {
			if p.empty() {
				return nil, fmt.Errorf("empty atom in cell %d", c)
			}
			if p.min() < lo || p.max() > hi {
				return nil, fmt.Errorf("atom outside cell %d", c)
			}
			all = append(all, p...)
			a := Atom{ID: len(u.Atoms) + 1, Cell: c, Set: p, W: p.count()}
			a.Single = a.W == Num{1, 0, 0, 0, 0}
			u.Atoms = append(u.Atoms, a)
			for _, sp := range p {
				u.segs = append(u.segs, seg{sp.lo, sp.hi, a.ID})
			}
		}
		cov := normalize(all)
		if len(cov) != 1 || cov[0].lo != lo || cov[0].hi != hi {
			return nil, fmt.Errorf("atoms do not cover cell %d", c)
		}
		n := Num{}
		for _, p := range ps {
			n = n.add(p.count())
		}
		if n != (iset{span{lo, hi}}).count() {
			return nil, fmt.Errorf("atoms overlap in cell %d", c)
		}
	}
	sort.Slice(u.segs, func(i, j int) bool { return u.segs[i].lo < u.segs[j].lo })
	// ranks
	idx := make([]int, len(u.Atoms))
	for i := range idx {
		idx[i] = i
	}
	sort.Slice(idx, func(i, j int) bool { return u.Atoms[idx[i]].Set.min() < u.Atoms[idx[j]].Set.min() })
	for r, i := range idx {
		u.Atoms[i].Lo = r + 1
	}
	sort.Slice(idx, func(i, j int) bool { return u.Atoms[idx[i]].Set.max() < u.Atoms[idx[j]].Set.max() })
	for r, i := range idx {
		u.Atoms[i].Hi = r + 1
	}
	return u, nil
}

func clip(s iset, lo, hi uint64) iset {
	i := sort.Search(len(s), func(i int) bool { return s[i].hi >= lo })
	var out iset
	for ; i < len(s) && s[i].lo <= hi; i++ {
		sp := s[i]
		if sp.lo < lo {
			sp.lo = lo
		}
		if sp.hi > hi {
			sp.hi = hi
		}
		out = append(out, sp)
	}
	return out
}

// vennUniverse: atoms = non-empty (cell x membership-mask of generators) regions.
func vennUniverse(bits int, cuts []uint64, gens []iset) (*Universe, error) {
	top := ^uint64(0)
	if bits == 32 {
		top = 0xFFFFFFFF
	}
	cs := append([]uint64{0}, cuts...)
	sort.Slice(cs, func(i, j int) bool { return cs[i] < cs[j] })
	var cellLo []uint64
	for i, c := range cs {
		if c > top {
			continue
		}
		if i > 0 && c == cs[i-1] {
			continue
		}
		cellLo = append(cellLo, c)
	}
	parts := make([][]iset, len(cellLo))
	for ci := range cellLo {
		lo := cellLo[ci]
		hi := top
		if ci+1 < len(cellLo) {
			hi = cellLo[ci+1] - 1
		}
		cg := make([]iset, len(gens))
		for g := range gens {
			cg[g] = clip(gens[g], lo, hi)
		}
		whole := iset{span{lo, hi}}
		for mask := 0; mask < 1<<len(gens); mask++ {
			r := whole
			for g := range gens {
				if mask>>g&1 == 1 {
					r = r.intersect(cg[g])
				} else {
					r = r.minus(cg[g])
				}
				if r.empty() {
					break
				}
			}
			if !r.empty() {
				parts[ci] = append(parts[ci], r)
			}
		}
	}
	return newUniverse(bits, cellLo, parts)
}

// setOf returns the union of the given atoms.
func (u *Universe) setOf(atoms []int) iset {
	var sp []span
	for _, a := range atoms {
		sp = append(sp, u.atom(a).Set...)
	}
	return normalize(sp)
}

// project counts s against the atoms. bad != "" when s is not a union of atoms.
func (u *Universe) project(s iset) (atoms []int, bad string) {
	cov := make([]Num, len(u.Atoms)+1)
	i, j := 0, 0
	for i < len(s) && j < len(u.segs) {
		sp, sg := s[i], u.segs[j]
		lo, hi := sp.lo, sp.hi
		if sg.lo > lo {
			lo = sg.lo
		}
		if sg.hi < hi {
			hi = sg.hi
		}
		if lo <= hi {
			cov[sg.atom] = cov[sg.atom].add((iset{span{lo, hi}}).count())
		}
		switch {
		case sp.hi < sg.hi:
			i++
		case sp.hi > sg.hi:
			j++
		default:
			i++
			j++
		}
	}
	if i < len(s) && bad == "" {
		bad = fmt.Sprintf("value %d outside universe", s[i].lo)
	}
	for id := 1; id <= len(u.Atoms); id++ {
		switch {
		case cov[id].isZero():
		case cov[id] == u.Atoms[id-1].W:
			atoms = append(atoms, id)
		default:
			if bad == "" {
				a := u.atom(id)
				inter := a.Set.intersect(s)
				miss := a.Set.minus(s)
				bad = fmt.Sprintf("atom %d partially present (%d of %d; e.g. has %d lacks %d)", id, cov[id].u64(), a.W.u64(), inter.min(), miss.min())
			}
		}
	}
	return
}

type Landmark struct {
	A int  `json:"a"` // atom id; 0 = "none" (-1 returned); -1 = value outside the universe
	F bool `json:"f"` // value is the least element of atom A
	L bool `json:"l"` // value is the greatest element of atom A
}

func (u *Universe) landmark(v uint64) Landmark {
	if v > u.Top {
		return Landmark{A: -1}
	}
	j := sort.Search(len(u.segs), func(j int) bool { return u.segs[j].hi >= v })
	a := u.atom(u.segs[j].atom)
	return Landmark{A: a.ID, F: v == a.Set.min(), L: v == a.Set.max()}
}

// computeShifts fills Sh for the offered offsets.
func (u *Universe) computeShifts(ds []int64) {
	u.Shifts = ds
	u.Sh = make([][]int, len(ds))
	byMin := map[uint64]int{}
	for i := range u.Atoms {
		byMin[u.Atoms[i].Set.min()] = u.Atoms[i].ID
	}
	for j, d := range ds {
		u.Sh[j] = make([]int, len(u.Atoms))
		for i := range u.Atoms {
			t := u.Atoms[i].Set.shift(d, u.Top)
			switch {
			case t.empty():
				u.Sh[j][i] = 0
			default:
				id, ok := byMin[t.min()]
				if ok && u.atom(id).Set.equal(t) {
					u.Sh[j][i] = id
				} else {
					u.Sh[j][i] = -1
				}
			}
		}
	}
}

// describe returns the universe event (first event of each trace).
func (u *Universe) describe() map[string]any {
	n := len(u.Atoms)
	cell := make([]int, n)
	w := make([]Num, n)
	lo := make([]int, n)
	hi := make([]int, n)
	single := []int{}
	for i, a := range u.Atoms {
		cell[i], w[i], lo[i], hi[i] = a.Cell, a.W, a.Lo, a.Hi
		if a.Single {
			single = append(single, a.ID)
		}
	}
	sh := u.Sh
	if sh == nil {
		sh = [][]int{}
	}
	return map[string]any{"op": "U", "bits": u.Bits, "nat": n, "ncell": u.ncell(), "cell": cell, "w": w,
		"lo": lo, "hi": hi, "single": single, "sh": sh, "name": u.Name}
}
