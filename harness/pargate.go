package main

// Gate traces of the parallel pipelines (C12, C->S): the verif gate hook records every channel operation of a
// real ParOr / ParHeapOr / ParAnd call with the goroutine that performed it; TraceParAgg.tla then checks that
// each recorded sequence is a behaviour of ParAgg.tla (hidden model steps allowed between recorded events).
// Random yields/sleeps injected at the gates diversify the schedules.

import (
	"bufio"
	"bytes"
	"flag"
	"fmt"
	"math/rand"
	"os"
	"runtime"
	"strconv"
	"strings"
	"sync"
	"time"

	"github.com/RoaringBitmap/roaring/v2"
	"github.com/RoaringBitmap/roaring/v2/roaring64"
)

type gateEv struct {
	gid  int64
	site string
	id   int
}

type gateRec struct {
	mu     sync.Mutex
	evs    []gateEv
	r      *rand.Rand
	jitter int // 0 none, 1 Gosched, 2 short sleeps
}

func curGID() int64 {
	var buf [64]byte
	n := runtime.Stack(buf[:], false)
	f := bytes.Fields(buf[:n])
	if len(f) < 2 {
		return -1
	}
	id, _ := strconv.ParseInt(string(f[1]), 10, 64)
	return id
}

func (g *gateRec) gate(site string, id int) {
	gid := curGID()
	g.mu.Lock()
	g.evs = append(g.evs, gateEv{gid, site, id})
	j := 0
	if g.jitter > 0 {
		j = g.r.Intn(6)
	}
	g.mu.Unlock()
	switch {
	case g.jitter == 1 && j < 3:
		runtime.Gosched()
	case g.jitter == 2 && j == 0:
		time.Sleep(time.Duration(50+j*37) * time.Microsecond)
	case g.jitter == 2 && j < 3:
		runtime.Gosched()
	}
}

var (
	recMu  sync.Mutex
	recCur *gateRec
	recSet bool
)

// setRecorder installs the hook once (before any pipeline goroutine exists) and switches the current recorder
// under a mutex, so that the harness itself stays race-free under the race detector.
func setRecorder(r *gateRec) {
	recMu.Lock()
	recCur = r
	if !recSet {
		recSet = true
		hook := func(site string, id int) {
			recMu.Lock()
			c := recCur
			recMu.Unlock()
			if c != nil {
				c.gate(site, id)
			}
		}
		roaring.VerifGate = hook
		roaring64.VerifGate = hook
	}
	recMu.Unlock()
}

// parConfig: a small configuration that is also a constant assignment of the TLA+ model
type parConfig struct {
	Name     string
	Pipeline string // ParOr | Heap
	Fn       string // ParOr | ParHeapOr | ParAnd
	NW       int
	LK, HK   int      // ParOr: keys lk..hk (all present)
	Items    []string // Heap: per key, "multi" (present in >= 2 inputs) or "single"
	Bits     int      // 64: roaring64.ParOr (keys are the high 32 bits)
}

var parConfigs = []parConfig{
	{Name: "paror_w1_k3", Pipeline: "ParOr", Fn: "ParOr", NW: 1, LK: 0, HK: 2},
	{Name: "paror_w2_k5", Pipeline: "ParOr", Fn: "ParOr", NW: 2, LK: 3, HK: 7},
	{Name: "paror_w3_k4", Pipeline: "ParOr", Fn: "ParOr", NW: 3, LK: 1, HK: 4},
	{Name: "paror_w1_k9", Pipeline: "ParOr", Fn: "ParOr", NW: 1, LK: 0, HK: 8},
	{Name: "paror64_w2_k4", Pipeline: "ParOr", Fn: "ParOr", NW: 2, LK: 2, HK: 5, Bits: 64},
	{Name: "paror64_w1_k6", Pipeline: "ParOr", Fn: "ParOr", NW: 1, LK: 0, HK: 5, Bits: 64},
	{Name: "heapor_w2_i3", Pipeline: "Heap", Fn: "ParHeapOr", NW: 2, Items: []string{"multi", "single", "multi"}},
	{Name: "heapor_w1_i5", Pipeline: "Heap", Fn: "ParHeapOr", NW: 1, Items: []string{"single", "single", "multi", "single", "multi"}},
	{Name: "heapor_w3_i4", Pipeline: "Heap", Fn: "ParHeapOr", NW: 3, Items: []string{"multi", "multi", "multi", "multi"}},
	{Name: "parand_w2_i4", Pipeline: "Heap", Fn: "ParAnd", NW: 2, Items: []string{"multi", "multi", "multi", "multi"}},
	{Name: "parand_w1_i0", Pipeline: "Heap", Fn: "ParAnd", NW: 1, Items: []string{}},
	{Name: "parand_w3_i2", Pipeline: "Heap", Fn: "ParAnd", NW: 3, Items: []string{"multi", "multi"}},
}

// parInputs: input bitmaps realising a configuration
func parInputs(cfg *parConfig, r *rand.Rand) []*roaring.Bitmap {
	var bms []*roaring.Bitmap
	switch cfg.Pipeline {
	case "ParOr":
		a, b, c := roaring.New(), roaring.New(), roaring.New()
		for k := cfg.LK; k <= cfg.HK; k++ {
			v := uint32(k)<<16 + uint32(r.Intn(65536))
			switch (k - cfg.LK) % 3 {
			case 0:
				a.Add(v)
				b.Add(v + 1)
			case 1:
				b.Add(v)
			default:
				c.Add(v)
				a.Add(v)
			}
		}
		a.Add(uint32(cfg.LK) << 16) // a and b span the whole key range
		b.Add(uint32(cfg.HK)<<16 + 7)
		bms = []*roaring.Bitmap{a, b, c}
	default:
		n := 3
		bms = make([]*roaring.Bitmap, n)
		for i := range bms {
			bms[i] = roaring.New()
		}
		for k, it := range cfg.Items {
			v := uint32(k+2)<<16 + uint32(r.Intn(60000))
			if it == "multi" || cfg.Fn == "ParAnd" {
				for i := range bms {
					bms[i].Add(v)
					bms[i].Add(v + uint32(i) + 1)
				}
			} else {
				bms[r.Intn(n)].Add(v)
			}
		}
		if cfg.Fn == "ParAnd" { // keys that are not common to all inputs are not work items
			bms[0].Add(1)
			bms[1].Add(0xFFFF0000)
		}
	}
	return bms
}

func parCall(cfg *parConfig, bms []*roaring.Bitmap) *roaring.Bitmap {
	switch cfg.Fn {
	case "ParOr":
		return roaring.ParOr(cfg.NW, bms...)
	case "ParHeapOr":
		return roaring.ParHeapOr(cfg.NW, bms...)
	}
	return roaring.ParAnd(cfg.NW, bms...)
}

// parPrepare builds the inputs of one call and returns the call itself: it reports "returned" when the result
// equals the sequential fold of the inputs, "wrong-result" otherwise (a panic is the caller's business).
func parPrepare(cfg *parConfig, r *rand.Rand) func() string {
	if cfg.Bits == 64 {
		a, b, c := roaring64.New(), roaring64.New(), roaring64.New()
		for k := cfg.LK; k <= cfg.HK; k++ {
			v := uint64(k)<<32 + uint64(r.Intn(1<<20))
			switch (k - cfg.LK) % 3 {
			case 0:
				a.Add(v)
				b.Add(v + 1)
			case 1:
				b.Add(v)
			default:
				c.Add(v)
				a.Add(v)
			}
		}
		a.Add(uint64(cfg.LK) << 32)
		b.Add(uint64(cfg.HK)<<32 + 7)
		want := a.Clone()
		want.Or(b)
		want.Or(c)
		return func() string {
			if res := roaring64.ParOr(cfg.NW, a, b, c); !res.Equals(want) {
				return "wrong-result"
			}
			return "returned"
		}
	}
	bms := parInputs(cfg, r)
	want := parExpected(cfg, bms)
	return func() string {
		if res := parCall(cfg, bms); !res.Equals(want) {
			return "wrong-result"
		}
		return "returned"
	}
}

// parExpected: the sequential fold the parallel call must equal
func parExpected(cfg *parConfig, bms []*roaring.Bitmap) *roaring.Bitmap {
	res := bms[0].Clone()
	for _, b := range bms[1:] {
		if cfg.Fn == "ParAnd" {
			res.And(b)
		} else {
			res.Or(b)
		}
	}
	return res
}

func cmdParGate(args []string) {
	fs := flag.NewFlagSet("pargate", flag.ExitOnError)
	seed := fs.Int64("seed", 1, "seed")
	traces := fs.Int("traces", 20, "runs")
	out := fs.String("out", "", "ndjson output")
	cover := fs.String("cover", "", "coverage json")
	first := fs.Int("first", 1, "first trace id")
	only := fs.Int("only", 0, "only this trace id")
	cfgName := fs.String("profile", "", "configuration name")
	fs.Int("steps", 0, "ignored")
	fs.Parse(args)
	var cfg *parConfig
	for i := range parConfigs {
		if parConfigs[i].Name == *cfgName {
			cfg = &parConfigs[i]
		}
	}
	if cfg == nil {
		panic("unknown pargate configuration " + *cfgName)
	}
	f, err := os.Create(*out)
	if err != nil {
		panic(err)
	}
	w := bufio.NewWriterSize(f, 1<<20)
	cv := coverOut{Ops: map[string]int{}, Kinds: map[string]int{}}
	emit := func(m map[string]any) {
		b, _ := jsonMarshal(m)
		w.Write(b)
		w.WriteByte('\n')
	}
	for t := 0; t < *traces; t++ {
		id := *first + t
		if *only != 0 && id != *only {
			continue
		}
		r := rand.New(rand.NewSource(*seed*2750159 + int64(id)))
		call := parPrepare(cfg, r)
		rec := &gateRec{r: rand.New(rand.NewSource(r.Int63())), jitter: r.Intn(3)}
		setRecorder(rec)
		done := make(chan string, 1)
		go func() { // the call runs in its own goroutine so that a hang can be reported
			defer func() {
				if p := recover(); p != nil {
					done <- "panic"
				}
			}()
			done <- call()
		}()
		outcome := "hang"
		select {
		case outcome = <-done:
		case <-time.After(20 * time.Second):
		}
		// wait until every goroutine of the call has passed its exit gate (so that no late event lands in the next run)
		wantExits := cfg.NW
		if cfg.Pipeline == "ParOr" {
			wantExits++ // the feeder
		}
		for try := 0; try < 2000 && outcome == "returned"; try++ {
			rec.mu.Lock()
			n := 0
			for _, e := range rec.evs {
				if strings.HasSuffix(e.site, ".exit") {
					n++
				}
			}
			rec.mu.Unlock()
			if n >= wantExits {
				break
			}
			time.Sleep(100 * time.Microsecond)
		}
		setRecorder(nil)
		rec.mu.Lock()
		evs := append([]gateEv(nil), rec.evs...)
		rec.mu.Unlock()
		// name the goroutines: caller ("main" sites), feeder, appender, workers in order of first appearance
		names := map[int64]string{}
		nw := 0
		for _, e := range evs {
			role := strings.Split(e.site, ".")[1]
			if _, ok := names[e.gid]; ok {
				continue
			}
			switch role {
			case "main", "feeder", "appender":
				names[e.gid] = role
			default:
				nw++
				names[e.gid] = fmt.Sprintf("w%d", nw)
			}
		}
		emit(map[string]any{"tr": id, "i": 0, "p": "reset", "site": cfg.Name, "id": 0})
		for i, e := range evs {
			parts := strings.Split(e.site, ".")
			emit(map[string]any{"tr": id, "i": i + 1, "p": names[e.gid], "site": parts[2], "id": e.id})
			cv.Ops[parts[1]+"."+parts[2]]++
		}
		emit(map[string]any{"tr": id, "i": len(evs) + 1, "p": "main", "site": outcome, "id": 0})
		cv.Traces++
		cv.Events += len(evs) + 2
		cv.Kinds[fmt.Sprintf("jitter%d", rec.jitter)]++
	}
	w.Flush()
	f.Close()
	writeCover(*cover, cv)
}
