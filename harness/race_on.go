//go:build race

package main

// The race detector enables checkptr, which flags the library's unsafe byte-slice casts on buffers that
// are not aligned for the element type. That is unrelated to C12, so race-instrumented runs stay away
// from the zero-copy / frozen entry points.
const raceEnabled = true
