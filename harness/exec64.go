package main

// 64-bit family (C17, C18): the same abstract calls executed on roaring64.Bitmap over a universe of
// uint64.  Events have the same shape and are validated by the same RoaringSet/TraceSet modules.

import (
	"bufio"
	"bytes"
	"context"
	"encoding/base64"
	"encoding/binary"
	"flag"
	"fmt"
	"math/rand"
	"os"
	"os/exec"
	"sort"
	"strconv"
	"strings"
	"syscall"
	"time"

	"github.com/RoaringBitmap/roaring/v2"
	"github.com/RoaringBitmap/roaring/v2/roaring64"
)

func view64(rb *roaring64.Bitmap) (iset, bool) {
	var spans []span
	ok := true
	prev := int64(-1)
	for _, b := range roaring64.VerifBuckets(rb) {
		if int64(b.Key) <= prev || b.Inner == nil {
			ok = false
		}
		prev = int64(b.Key)
		if b.Inner == nil {
			continue
		}
		base := uint64(b.Key) << 32
		v := view32(b.Inner, nil)
		if v.Set.empty() {
			ok = false // an empty bucket is not a well-formed roaring64 bitmap
		}
		for _, sp := range v.Set {
			spans = append(spans, span{base + sp.lo, base + sp.hi})
		}
	}
	return normalize(spans), ok
}

func (e *Exec) bm64(s int) *roaring64.Bitmap { return e.slots64[s] }

func (e *Exec) list64(xs []int) []*roaring64.Bitmap {
	out := make([]*roaring64.Bitmap, len(xs))
	for i, s := range xs {
		out[i] = e.slots64[s]
	}
	return out
}

func (e *Exec) val64(a int) uint64 { return e.u.atom(a).Set.min() }

// range64 maps cells [c0,c1) to a half-open [a,b); the API cannot name 2^64, so a range ending at
// the top of the universe is clipped to 2^64-1 by the caller (flag topClipped).
func (e *Exec) range64(c0, c1 int) (a, b uint64, endsAtTop bool) {
	lo := func(c int) (uint64, bool) {
		if c > e.u.ncell() {
			return 0, true
		}
		return e.u.CellLo[c-1], false
	}
	a, atop := lo(c0)
	b, btop := lo(c1)
	if atop {
		return 0, 0, false // empty range [2^64, ...)
	}
	if btop {
		return a, ^uint64(0), true
	}
	return a, b, false
}

func (e *Exec) build64(s iset, rcp string) *roaring64.Bitmap {
	rb := roaring64.New()
	base := byte('R')
	if len(rcp) > 0 {
		base = rcp[0]
	}
	if !s.smallerThan(300000) && base != 'W' {
		base = 'R'
	}
	switch base {
	case 'M', 'm', 'A', 'a', 'B':
		vs := s.values()
		if base == 'm' || base == 'a' {
			e.rng.Shuffle(len(vs), func(i, j int) { vs[i], vs[j] = vs[j], vs[i] })
		}
		switch base {
		case 'M', 'm':
			rb.AddMany(vs)
		case 'B':
			rb = roaring64.BitmapOf(vs...)
		default:
			for _, v := range vs {
				rb.Add(v)
			}
		}
	case 'W': // the buckets' 32-bit bitmaps are built first and wrapped (Roaring32AsRoaring64: "no copy is made"); the rest is added
		var low []span
		for _, sp := range s {
			if sp.lo <= 0xFFFFFFFF {
				hi := sp.hi
				if hi > 0xFFFFFFFF {
					hi = 0xFFFFFFFF
				}
				low = append(low, span{sp.lo, hi})
			}
		}
		if len(low) > 0 { // an empty 32-bit bitmap would make an empty bucket: outside what the constructor is documented for
			b32 := roaring.New()
			for _, sp := range low {
				b32.AddRange(sp.lo, sp.hi+1)
			}
			if e.rng.Intn(2) == 0 {
				b32.RunOptimize()
			}
			rb = roaring64.Roaring32AsRoaring64(b32)
		}
		for _, sp := range s {
			if sp.hi <= 0xFFFFFFFF {
				continue
			}
			lo := sp.lo
			if lo <= 0xFFFFFFFF {
				lo = 1 << 32
			}
			if sp.hi == ^uint64(0) {
				if lo < sp.hi {
					rb.AddRange(lo, sp.hi)
				}
				rb.Add(sp.hi)
			} else {
				rb.AddRange(lo, sp.hi+1)
			}
		}
	default:
		for _, sp := range s {
			if sp.hi == ^uint64(0) {
				if sp.lo < sp.hi {
					rb.AddRange(sp.lo, sp.hi)
				}
				rb.Add(sp.hi)
			} else {
				rb.AddRange(sp.lo, sp.hi+1)
			}
		}
	}
	for _, m := range []byte(rcp) {
		switch m {
		case 'o':
			rb.RunOptimize()
		case 'c':
			rb.SetCopyOnWrite(true)
		case 'k':
			rb.SetCopyOnWrite(true)
			cl := rb.Clone()
			e.keep64 = append(e.keep64, rb)
			rb = cl
		case 'r':
			data, err := rb.ToBytes()
			if err == nil {
				nb := roaring64.New()
				if _, err := nb.ReadFrom(bytes.NewReader(data)); err == nil {
					rb = nb
				}
			}
		}
	}
	return rb
}

var recipes64 = []string{"R", "R", "Ro", "M", "m", "A", "a", "B", "Rc", "Rk", "Mo", "Mc", "Rr", "Mk", "W", "Wc", "Wo"}

func (e *Exec) rep64(s int) SlotRep {
	rb := e.slots64[s]
	r := SlotRep{S: s, Cow: roaring64.VerifCOW(rb), Tbl: true, Ch: []ChunkRec{}}
	if err := rb.Validate(); err != nil {
		r.Val = err.Error()
	}
	r.Gc = numFromU64(rb.GetCardinality())
	r.Emp = rb.IsEmpty()
	return r
}

// sharing64: same *Bitmap in two slots, or the same inner 32-bit bitmap object in buckets of two
// slots without both shared flags -> write probe (as in the 32-bit family).
func (e *Exec) sharing64(ev *Event, targets []int) {
	isT := map[int]bool{}
	for _, t := range targets {
		isT[t] = true
	}
	for i := 1; i <= NSLOT; i++ {
		for j := i + 1; j <= NSLOT; j++ {
			if e.slots64[i] == e.slots64[j] {
				ev.Alias = append(ev.Alias, [2]int{i, j})
				v := j
				if isT[i] && !isT[j] {
					v = i
				}
				e.slots64[v] = e.slots64[v].Clone()
			}
		}
	}
	type ref struct {
		slot   int
		shared bool
		first  uint64
	}
	by := map[*roaring.Bitmap][]ref{}
	var order []*roaring.Bitmap
	for s := 1; s <= NSLOT; s++ {
		for _, b := range roaring64.VerifBuckets(e.slots64[s]) {
			if b.Inner == nil || b.Inner.IsEmpty() {
				continue
			}
			if _, ok := by[b.Inner]; !ok {
				order = append(order, b.Inner)
			}
			vs := view32(b.Inner, nil).Set
			if vs.empty() { // a bucket that claims to be non-empty but holds nothing: judged by the content / well-formedness clauses
				continue
			}
			by[b.Inner] = append(by[b.Inner], ref{s, b.Shared, uint64(b.Key)<<32 + vs.min()})
		}
	}
	rebuild := func(slot int, snap iset) {
		e.slots64[slot] = e.build64(snap, "R")
	}
	for _, in := range order {
		refs := by[in]
		if len(refs) < 2 {
			continue
		}
		all := true
		for _, r := range refs {
			all = all && r.shared
		}
		if all {
			continue
		}
		for x := 0; x < len(refs); x++ {
			for y := 0; y < len(refs); y++ {
				if refs[x].slot == refs[y].slot {
					continue
				}
				a, b, v := refs[x].slot, refs[y].slot, refs[x].first
				A := e.slots64[a]
				if !A.Contains(v) {
					continue
				}
				snapA, _ := view64(A)
				snapB, _ := view64(e.slots64[b])
				A.Remove(v)
				sb, _ := view64(e.slots64[b])
				w := !sb.contains(v)
				A.Add(v)
				ev.Probe = append(ev.Probe, ProbeRec{a, b, w, false})
				if w {
					rebuild(a, snapA)
					rebuild(b, snapB)
				}
			}
		}
	}
}

func (e *Exec) do64(c *Call, ev *Event) (targets []int) {
	u := e.u
	set := func(dst int, rb *roaring64.Bitmap) { e.slots64[dst] = rb }
	switch c.Op {
	case "New":
		set(c.Dst, roaring64.New())
		return []int{c.Dst}
	case "Build":
		set(c.Dst, e.build64(u.setOf(c.As), c.Rcp))
		return []int{c.Dst}
	case "BitmapOf":
		vs := make([]uint64, len(c.As))
		for i, a := range c.As {
			vs[i] = e.val64(a)
		}
		set(c.Dst, roaring64.BitmapOf(vs...))
		return []int{c.Dst}
	case "Clone":
		set(c.Dst, e.bm64(c.X).Clone())
		return []int{c.Dst, c.X}
	case "Add":
		e.bm64(c.X).Add(e.val64(c.A))
		return []int{c.X}
	case "AddInt":
		v := e.val64(c.A)
		if v > 1<<62 {
			ev.Skip = true
			return nil
		}
		e.bm64(c.X).AddInt(int(v))
		return []int{c.X}
	case "CheckedAdd":
		ev.Ret = e.bm64(c.X).CheckedAdd(e.val64(c.A))
		return []int{c.X}
	case "Remove":
		e.bm64(c.X).Remove(e.val64(c.A))
		return []int{c.X}
	case "CheckedRemove":
		ev.Ret = e.bm64(c.X).CheckedRemove(e.val64(c.A))
		return []int{c.X}
	case "AddMany":
		vs := make([]uint64, len(c.As))
		for i, a := range c.As {
			vs[i] = e.val64(a)
		}
		e.bm64(c.X).AddMany(vs)
		return []int{c.X}
	case "AddRange", "RemoveRange", "Flip":
		a, b, top := e.range64(c.C0, c.C1)
		x := e.bm64(c.X)
		do := func(a, b uint64) {
			switch c.Op {
			case "AddRange":
				x.AddRange(a, b)
			case "RemoveRange":
				x.RemoveRange(a, b)
			default:
				if c.V == 1 && b < 1<<62 {
					x.FlipInt(int(a), int(b))
				} else {
					x.Flip(a, b)
				}
			}
		}
		do(a, b)
		if top { // the last integer 2^64-1 cannot be covered by a half-open range: one point call completes it
			last := ^uint64(0)
			switch c.Op {
			case "AddRange":
				x.Add(last)
			case "RemoveRange":
				x.Remove(last)
			default:
				if x.Contains(last) {
					x.Remove(last)
				} else {
					x.Add(last)
				}
			}
		}
		return []int{c.X}
	case "Clear":
		e.bm64(c.X).Clear()
		return []int{c.X}
	case "RunOptimize":
		e.bm64(c.X).RunOptimize()
		return []int{c.X}
	case "SetCOW":
		e.bm64(c.X).SetCopyOnWrite(c.V == 1)
		return []int{c.X}
	case "Detach":
		e.bm64(c.X).CloneCopyOnWriteContainers()
		return []int{c.X}
	case "And":
		e.bm64(c.X).And(e.bm64(c.Y))
		return []int{c.X, c.Y}
	case "Or":
		e.bm64(c.X).Or(e.bm64(c.Y))
		return []int{c.X, c.Y}
	case "Xor":
		e.bm64(c.X).Xor(e.bm64(c.Y))
		return []int{c.X, c.Y}
	case "AndNot":
		e.bm64(c.X).AndNot(e.bm64(c.Y))
		return []int{c.X, c.Y}
	case "AndS":
		set(c.Dst, roaring64.And(e.bm64(c.X), e.bm64(c.Y)))
		return []int{c.Dst, c.X, c.Y}
	case "OrS":
		set(c.Dst, roaring64.Or(e.bm64(c.X), e.bm64(c.Y)))
		return []int{c.Dst, c.X, c.Y}
	case "XorS":
		set(c.Dst, roaring64.Xor(e.bm64(c.X), e.bm64(c.Y)))
		return []int{c.Dst, c.X, c.Y}
	case "AndNotS":
		set(c.Dst, roaring64.AndNot(e.bm64(c.X), e.bm64(c.Y)))
		return []int{c.Dst, c.X, c.Y}
	case "AndCard":
		ev.Ret = numFromU64(e.bm64(c.X).AndCardinality(e.bm64(c.Y)))
	case "OrCard":
		ev.Ret = numFromU64(e.bm64(c.X).OrCardinality(e.bm64(c.Y)))
	case "Intersects":
		ev.Ret = e.bm64(c.X).Intersects(e.bm64(c.Y))
	case "Equals":
		ev.Ret = e.bm64(c.X).Equals(e.bm64(c.Y))
	case "FastOr", "FastAnd", "ParOr":
		l := e.list64(c.Xs)
		before := append([]*roaring64.Bitmap(nil), l...)
		var r *roaring64.Bitmap
		switch c.Op {
		case "FastOr":
			r = roaring64.FastOr(l...)
		case "FastAnd":
			r = roaring64.FastAnd(l...)
		default:
			r = roaring64.ParOr(c.W, l...)
		}
		for i := range l {
			if l[i] != before[i] {
				ev.Argok = false
			}
		}
		set(c.Dst, r)
		return append([]int{c.Dst}, c.Xs...)
	case "FlipS":
		a, b, top := e.range64(c.C0, c.C1)
		if top { // a static flip up to and including 2^64-1 cannot be expressed in one call
			ev.Skip = true
			return nil
		}
		var r *roaring64.Bitmap
		if c.V == 1 && b < 1<<62 {
			r = roaring64.FlipInt(e.bm64(c.X), int(a), int(b))
		} else {
			r = roaring64.Flip(e.bm64(c.X), a, b)
		}
		set(c.Dst, r)
		return []int{c.Dst, c.X}
	case "Contains":
		v := e.val64(c.A)
		if c.V == 1 && v < 1<<62 {
			ev.Ret = e.bm64(c.X).ContainsInt(int(v))
		} else {
			ev.Ret = e.bm64(c.X).Contains(v)
		}
	case "IsEmpty":
		ev.Ret = e.bm64(c.X).IsEmpty()
	case "Card":
		ev.Ret = numFromU64(e.bm64(c.X).GetCardinality())
	case "Min":
		if len(e.last[c.X]) == 0 {
			ev.Skip = true
			return nil
		}
		ev.Ret = u.landmark(e.bm64(c.X).Minimum())
	case "Max":
		if len(e.last[c.X]) == 0 {
			ev.Skip = true
			return nil
		}
		ev.Ret = u.landmark(e.bm64(c.X).Maximum())
	case "Rank":
		t := u.CellLo[c.C0-1]
		if c.Side == 1 {
			t = u.cellHi(c.C0)
		}
		ev.Ret = numFromU64(e.bm64(c.X).Rank(t))
	case "Select":
		v, err := e.bm64(c.X).Select(c.Num.u64())
		if err != nil {
			ev.Ret = Landmark{A: 0}
		} else {
			ev.Ret = u.landmark(v)
		}
		if set, wf := view64(e.bm64(c.X)); wf { // exact oracle for every index: the i-th element of the independently projected set
			if want, ok := set.kth(c.Num.u64()); ok != (err == nil) || ok && want != v {
				ev.Aux = false
			}
		}
	case "ToArray":
		arr := e.bm64(c.X).ToArray()
		ok := sort.SliceIsSorted(arr, func(i, j int) bool { return arr[i] < arr[j] })
		sp := make([]span, len(arr))
		for i, v := range arr {
			sp[i] = span{v, v}
			if i > 0 && arr[i-1] >= v {
				ok = false
			}
		}
		ev.Aux = ok
		ev.Arr = e.projArr(normalize(sp), ev)
		ev.Ret = numFromU64(uint64(len(arr)))
	case "Stats": // roaring64.Stats sums the per-bucket statistics: counts and values must add up to the bitmap
		st := e.bm64(c.X).Stats()
		nk := [3]int{}
		hasrun := false
		for _, b := range roaring64.VerifBuckets(e.bm64(c.X)) {
			if b.Inner == nil {
				continue
			}
			for _, ch := range view32(b.Inner, nil).Chunks {
				if ch.T >= 0 && ch.T <= 2 {
					nk[ch.T]++
				}
			}
		}
		hasrun = e.bm64(c.X).HasRunCompression()
		ev.Ret = map[string]any{"card": numFromU64(st.Cardinality), "containers": int(st.Containers),
			"kinds":     []int{int(st.ArrayContainers), int(st.BitmapContainers), int(st.RunContainers)},
			"values":    numFromU64(st.ArrayContainerValues + st.BitmapContainerValues + st.RunContainerValues),
			"viewkinds": []int{nk[0], nk[1], nk[2]}, "hasrun": hasrun}
	case "String": // String() lists the elements in increasing order as {a,b,c} (truncated after 0x40000 values)
		x := e.bm64(c.X)
		set, _ := view64(x)
		if !set.smallerThan(200000) {
			ev.Skip = true
			return nil
		}
		str := x.String()
		ok := len(str) >= 2 && str[0] == '{' && str[len(str)-1] == '}'
		var sp []span
		if ok && len(str) > 2 {
			first := true
			var prev uint64
			for _, f := range strings.Split(str[1:len(str)-1], ",") {
				v, err := strconv.ParseUint(f, 10, 64)
				if err != nil || (!first && v <= prev) {
					ok = false
					break
				}
				first, prev = false, v
				sp = append(sp, span{v, v})
			}
		}
		ev.Aux = ok
		ev.Arr = e.projArr(normalize(sp), ev)
		ev.Ret = numFromU64(uint64(len(sp)))
	default:
		if e.doIter(c, ev) {
			return nil
		}
		if !e.doSerial64(c, ev, &targets) {
			panic("unknown 64-bit op " + c.Op)
		}
		return targets
	}
	if c.X > 0 {
		e.obs = append(e.obs, c.X)
	}
	if c.Y > 0 {
		e.obs = append(e.obs, c.Y)
	}
	return nil
}

// ---------------------------------------------------------------- 64-bit serialization (C18)

func (e *Exec) ser64(x, variant int) ([]byte, int64, error) {
	rb := e.bm64(x)
	switch variant {
	case 1:
		b, err := rb.ToBytes()
		return b, int64(len(b)), err
	case 2:
		b, err := rb.MarshalBinary()
		return b, int64(len(b)), err
	case 3:
		s, err := rb.ToBase64()
		if err != nil {
			return nil, 0, err
		}
		b, err := base64.StdEncoding.DecodeString(s)
		return b, int64(len(b)), err
	default:
		var buf bytes.Buffer
		n, err := rb.WriteTo(&buf)
		return buf.Bytes(), n, err
	}
}

func (e *Exec) doSerial64(c *Call, ev *Event, targets *[]int) bool {
	switch c.Op {
	case "Ser64": // accounting + validate of the writer side
		rb := e.bm64(c.X)
		b, n, err := e.ser64(c.X, c.V)
		same := true
		if err == nil {
			for v := 0; v < 4; v++ {
				b2, _, err2 := e.ser64(c.X, v)
				if err2 != nil || !bytes.Equal(b, b2) {
					same = false
				}
			}
		}
		ev.Ret = map[string]any{"err": err != nil, "len": numFromU64(uint64(len(b))), "gsz": numFromU64(rb.GetSerializedSizeInBytes()),
			"retn": numFromU64(uint64(n)), "same": same, "valid": rb.Validate() == nil}
		e.obs = append(e.obs, c.X)
		return true
	case "Load64":
		b, _, err := e.ser64(c.X, e.rng.Intn(4))
		if err != nil {
			ev.Skip = true
			return true
		}
		entry := c.V % 5
		reuse := c.W == 1
		nb := roaring64.New()
		if reuse {
			nb = e.slots64[c.Dst]
		}
		with := append(append([]byte{}, b...), bytes.Repeat([]byte{0xA5}, sentinelLen)...)
		var n int64
		var lerr error
		posOK := true
		switch entry {
		case 0:
			rd := bytes.NewReader(with)
			n, lerr = nb.ReadFrom(rd)
			posOK = rd.Len() == sentinelLen
		case 1:
			rd := &chunkReader{b: with, sizes: chunkings[c.J%len(chunkings)]}
			n, lerr = nb.ReadFrom(rd)
			posOK = rd.pos == len(b)
		case 2:
			n, lerr = nb.FromUnsafeBytes(with)
			e.keepBufs = append(e.keepBufs, with)
		case 3:
			lerr = nb.UnmarshalBinary(b)
			n = int64(len(b))
		case 4:
			n, lerr = nb.FromBase64(base64.StdEncoding.EncodeToString(b))
		}
		valid := lerr != nil || nb.Validate() == nil
		ev.Ret = map[string]any{"err": lerr != nil, "n": numFromU64(uint64(n)), "len": numFromU64(uint64(len(b))), "pos": posOK, "entry": entry, "reuse": reuse, "valid": valid}
		if lerr == nil {
			e.slots64[c.Dst] = nb
		} else if reuse {
			e.slots64[c.Dst] = roaring64.New()
		}
		*targets = []int{c.Dst, c.X}
		return true
	}
	return false
}

func randUniverse64(r *rand.Rand, maxAtoms int) (*Universe, []iset) {
	bucketPool := []uint64{0, 1, 2, 0x7FFFFFFF, 0x80000000, 0xFFFFFFFE, 0xFFFFFFFF}
	for {
		nb := 1 + r.Intn(3)
		var buckets []uint64
		base := pick(r, bucketPool)
		for len(buckets) < nb {
			switch r.Intn(3) {
			case 0:
				buckets = append(buckets, pick(r, bucketPool))
			case 1:
				buckets = append(buckets, uint64(r.Uint32()))
			default:
				k := int64(base) + int64(r.Intn(3)) - 1
				if k >= 0 && k <= 0xFFFFFFFF {
					buckets = append(buckets, uint64(k))
				}
			}
		}
		ng := 2 + r.Intn(2)
		gens := make([]iset, ng)
		for i := range gens {
			var s iset
			for _, b := range buckets {
				if r.Intn(3) == 0 {
					continue
				}
				keys := randKeys(r, 1+r.Intn(2))
				g32 := randGen32(r, keys)
				var sp []span
				for _, x := range g32 {
					sp = append(sp, span{b<<32 + x.lo, b<<32 + x.hi})
				}
				s = s.union(normalize(sp))
			}
			if r.Intn(5) == 0 { // a range crossing a 2^32 boundary
				b := pick(r, buckets)
				if b < 0xFFFFFFFF {
					lo := b<<32 + 0xFFFFFFFF - uint64(r.Intn(100000))
					s = s.union(iset{span{lo, lo + uint64(r.Intn(300000))}})
				}
			}
			gens[i] = s
		}
		var cuts []uint64
		addPoint := func(t uint64) {
			cuts = append(cuts, t)
			if t != ^uint64(0) {
				cuts = append(cuts, t+1)
			}
		}
		for _, b := range buckets {
			if r.Intn(2) == 0 {
				cuts = append(cuts, b<<32)
			}
			if r.Intn(2) == 0 && b < 0xFFFFFFFF {
				cuts = append(cuts, (b+1)<<32)
			}
			if r.Intn(3) == 0 {
				cuts = append(cuts, b<<32+uint64(r.Uint32()))
			}
		}
		for i, np := 0, 2+r.Intn(4); i < np; i++ {
			g := gens[r.Intn(ng)]
			if g.empty() || r.Intn(5) == 0 {
				addPoint(pick(r, []uint64{0, ^uint64(0), pick(r, buckets) << 32, pick(r, buckets)<<32 + 0xFFFFFFFF}))
				continue
			}
			sp := g[r.Intn(len(g))]
			switch r.Intn(4) {
			case 0:
				addPoint(sp.lo)
			case 1:
				addPoint(sp.hi)
			case 2:
				if sp.hi != ^uint64(0) {
					addPoint(sp.hi + 1)
				}
			default:
				if sp.lo > 0 {
					addPoint(sp.lo - 1)
				}
			}
		}
		u, err := vennUniverse(64, cuts, gens)
		if err != nil {
			panic(err)
		}
		if len(u.Atoms) > maxAtoms {
			continue
		}
		u.computeShifts(nil)
		u.Name = "venn64"
		return u, gens
	}
}

// ---------------------------------------------------------------- untrusted 64-bit streams (C18)
// Each decode of a damaged stream runs in a CHILD process with an address-space limit: an attacker-sized
// allocation must surface as an error of the decoder, not as the death of the process that called it (and
// certainly not of the checker).

func dec64Child(args []string) {
	// args: entry file
	var lim syscall.Rlimit
	lim.Cur, lim.Max = 6<<30, 6<<30
	syscall.Setrlimit(syscall.RLIMIT_AS, &lim)
	data, err := os.ReadFile(args[1])
	if err != nil {
		fmt.Println("harness-error")
		return
	}
	if strings.HasPrefix(args[0], "all") {
		// every proper prefix of the file through one entry point: the first panic is reported
		res := "err"
		for k := 0; k < len(data) && !strings.HasPrefix(res, "panic"); k++ {
			func() {
				defer func() {
					if r := recover(); r != nil {
						res = fmt.Sprintf("panic: prefix of %d/%d bytes: %v", k, len(data), r)
					}
				}()
				rb := roaring64.New()
				in := append([]byte(nil), data[:k]...)
				switch args[0][3:] {
				case "0":
					rb.ReadFrom(bytes.NewReader(in))
				case "1":
					rb.FromUnsafeBytes(in)
				case "2":
					rb.UnmarshalBinary(in)
				default:
					rb.FromBase64(base64.StdEncoding.EncodeToString(in))
				}
			}()
		}
		fmt.Println(res)
		return
	}
	out := "ok"
	func() {
		defer func() {
			if r := recover(); r != nil {
				out = fmt.Sprintf("panic: %v", r)
			}
		}()
		rb := roaring64.New()
		var derr error
		switch args[0] {
		case "0":
			_, derr = rb.ReadFrom(bytes.NewReader(data))
		case "1":
			_, derr = rb.FromUnsafeBytes(data)
		case "2":
			derr = rb.UnmarshalBinary(data)
		default:
			_, derr = rb.FromBase64(base64.StdEncoding.EncodeToString(data))
		}
		if derr != nil {
			out = "err"
		}
	}()
	fmt.Println(out)
}

var kinds64 = []string{"trunc", "count-0", "count+1", "count-1", "count-2^31", "count-2^40", "count-2^63", "count-max", "key-unsorted", "key-dup", "inner-cookie", "inner-count", "byteflip", "random"}

func corrupt64(b []byte, kind string, r *rand.Rand) ([]byte, bool, bool) {
	out := append([]byte(nil), b...)
	if len(b) < 8 {
		return nil, false, false
	}
	n := binary.LittleEndian.Uint64(b)
	switch kind {
	case "trunc":
		cuts := []int{0, 1, 7, 8, 9, 11, 12, 13, len(b) - 1, len(b) / 2, r.Intn(len(b))}
		c := cuts[r.Intn(len(cuts))]
		if c >= len(b) {
			c = len(b) - 1
		}
		return out[:c], true, true
	case "count-0":
		binary.LittleEndian.PutUint64(out, 0)
	case "count+1":
		binary.LittleEndian.PutUint64(out, n+1)
	case "count-1":
		if n == 0 {
			return nil, false, false
		}
		binary.LittleEndian.PutUint64(out, n-1)
	case "count-2^31":
		binary.LittleEndian.PutUint64(out, 1<<31)
	case "count-2^40":
		binary.LittleEndian.PutUint64(out, 1<<40)
	case "count-2^63":
		binary.LittleEndian.PutUint64(out, 1<<63)
	case "count-max":
		binary.LittleEndian.PutUint64(out, ^uint64(0))
	case "key-unsorted", "key-dup", "inner-cookie", "inner-count":
		if n == 0 || len(b) < 16 {
			return nil, false, false
		}
		switch kind {
		case "key-unsorted":
			binary.LittleEndian.PutUint32(out[8:], 0xFFFFFFFF)
		case "key-dup":
			// second key position is unknown without parsing the inner stream; reuse the first key for a later 4 bytes only when it parses
			pf, _ := parsePortable(b[12:])
			if !pf.OK || 12+pf.End+4 > len(b) {
				return nil, false, false
			}
			copy(out[12+pf.End:], b[8:12])
		case "inner-cookie":
			binary.LittleEndian.PutUint32(out[12:], pick(r, []uint32{0, 12345, 0xFFFFFFFF, uint32(r.Uint32())}))
		case "inner-count":
			binary.LittleEndian.PutUint32(out[16:], pick(r, []uint32{0, 65537, 0xFFFFFFFF, 1 << 31}))
		}
	case "byteflip":
		for k, m := 0, 1+r.Intn(4); k < m; k++ {
			lim := len(out)
			if r.Intn(2) == 0 && lim > 24 {
				lim = 24
			}
			out[r.Intn(lim)] ^= byte(1 << uint(r.Intn(8)))
		}
	default:
		out = make([]byte, r.Intn(48))
		r.Read(out)
	}
	return out, false, true
}

func cmdFuzzDec64(args []string) {
	fs := flag.NewFlagSet("fuzzdec64", flag.ExitOnError)
	seed := fs.Int64("seed", 1, "seed")
	traces := fs.Int("traces", 50, "number of inputs")
	out := fs.String("out", "", "ndjson output")
	cover := fs.String("cover", "", "coverage json")
	first := fs.Int("first", 1, "first trace id")
	only := fs.Int("only", 0, "only this trace id")
	fs.String("profile", "", "ignored")
	fs.Int("steps", 0, "ignored")
	fs.Int("bits", 64, "ignored")
	fs.Parse(args)
	f, err := os.Create(*out)
	if err != nil {
		panic(err)
	}
	w := bufio.NewWriterSize(f, 1<<20)
	cv := coverOut{Ops: map[string]int{}, Kinds: map[string]int{}}
	self, _ := os.Executable()
	tmp, _ := os.MkdirTemp("", "dec64")
	defer os.RemoveAll(tmp)
	for t := 0; t < *traces; t++ {
		id := *first + t
		if *only != 0 && id != *only {
			continue
		}
		markInflight(id, 0, "Decode")
		r := rand.New(rand.NewSource(*seed*15485863 + int64(id)))
		src := roaring64.New()
		for i, n := 0, r.Intn(4); i < n; i++ {
			b := uint64(pick(r, []uint64{0, 1, 0x7FFFFFFF, 0xFFFFFFFF, uint64(r.Uint32())}))
			for _, sp := range randGen32(r, randKeys(r, 1+r.Intn(3))) {
				if sp.hi-sp.lo < 100000 {
					src.AddRange(b<<32+sp.lo, b<<32+sp.hi+1)
				}
			}
		}
		if r.Intn(2) == 0 {
			src.RunOptimize()
		}
		valid, _ := src.ToBytes()
		kind := pick(r, kinds64)
		if r.Intn(5) == 0 {
			kind = "none"
		}
		data, prefix, ok := corrupt64(valid, kind, r)
		if kind == "none" {
			ok = false
		}
		if !ok {
			data, kind, prefix = valid, "none", false
		}
		allPrefixes := len(valid) <= 2000 && r.Intn(3) == 0
		if allPrefixes { // every truncation position of a small valid stream (one child process per entry point)
			data, kind, prefix = valid, "all-prefixes", false
		}
		cv.Kinds[kind]++
		u, _ := vennUniverse(64, nil, nil)
		u.computeShifts(nil)
		u.Name = "fuzzdec64/" + kind
		e := newExec(u, w, id, r.Int63())
		e.begin()
		path := fmt.Sprintf("%s/in-%d.bin", tmp, id)
		os.WriteFile(path, data, 0o644)
		for entry := 0; entry < 4; entry++ {
			ctx, cancel := context.WithTimeout(context.Background(), 30*time.Second)
			mode := fmt.Sprint(entry)
			if allPrefixes {
				mode = "all" + mode
			}
			cmd := exec.CommandContext(ctx, self, "dec64", mode, path)
			var so, se bytes.Buffer
			cmd.Stdout, cmd.Stderr = &so, &se
			rerr := cmd.Run()
			timedOut := ctx.Err() == context.DeadlineExceeded
			cancel()
			outcome := strings.TrimSpace(so.String())
			msg := ""
			switch {
			case timedOut:
				outcome = "hang"
			case rerr != nil:
				outcome = "crash"
				msg = se.String()
				if i := strings.Index(msg, "\n"); i > 0 {
					msg = msg[:i]
				}
			case strings.HasPrefix(outcome, "panic"):
				msg, outcome = outcome, "panic"
			}
			if len(msg) > 160 {
				msg = msg[:160]
			}
			ev := e.rawEvent(Call{Op: "Decode", V: entry, Rcp: kind})
			ev.Ret = map[string]any{"outcome": outcome, "msg": msg, "valid": false, "prefix": prefix && false, "entry": []string{"ReadFrom", "FromUnsafeBytes", "UnmarshalBinary", "FromBase64"}[entry],
				"mustok": kind == "none"} // an undamaged stream written by the library itself must be accepted
			e.emit(ev)
			e.events++
			cv.Ops["Decode"]++
		}
		os.Remove(path)
		cv.Traces++
		cv.Events += e.events
	}
	w.Flush()
	f.Close()
	writeCover(*cover, cv)
}
