package main

// Untrusted bytes (C10): structured corruptions / truncations of valid streams are fed to every 32-bit
// decoding entry point, with the input flush against PROT_NONE guard pages; outcomes are logged as events
// (Decode / MustRead) and, when decoding succeeds and Validate()==nil, the decoded bitmap is ADOPTED into a
// normal set-family trace (its content is whatever the raw view shows) and put through the query / iterator /
// algebra / re-serialization battery that RoaringSet/RoaringIter/RoaringSerial judge.

import (
	"bufio"
	"bytes"
	"encoding/base64"
	"encoding/binary"
	"flag"
	"fmt"
	"math/rand"
	"os"
	"runtime/debug"
	"syscall"
	"time"

	"github.com/RoaringBitmap/roaring/v2"
)

const pageSize = 4096

// guarded returns a copy of b inside an anonymous mapping, flush against a PROT_NONE page at its end
// (atEnd) or at its start. The mapping is leaked on purpose (bitmaps may alias it).
func guarded(b []byte, atEnd bool, align int) []byte {
	out, _ := guardedMap(b, atEnd, align)
	return out
}

// guardedMap also returns the whole mapping, so that callers that know nothing refers to it any more can unmap it
func guardedMap(b []byte, atEnd bool, align int) ([]byte, []byte) {
	n := len(b)
	inner := ((n + align + pageSize - 1) / pageSize) * pageSize
	if inner == 0 {
		inner = pageSize
	}
	m, err := syscall.Mmap(-1, 0, inner+2*pageSize, syscall.PROT_READ|syscall.PROT_WRITE, syscall.MAP_ANON|syscall.MAP_PRIVATE)
	if err != nil {
		panic(err)
	}
	var out []byte
	if atEnd {
		off := pageSize + inner - n
		out = m[off : off+n : off+n]
	} else {
		out = m[pageSize : pageSize+n : pageSize+n]
	}
	copy(out, b)
	syscall.Mprotect(m[:pageSize], syscall.PROT_NONE)
	syscall.Mprotect(m[pageSize+inner:], syscall.PROT_NONE)
	return out, m
}

type decodeOutcome struct {
	Outcome string `json:"outcome"` // err | ok | panic | hang
	Msg     string `json:"msg"`
	Valid   bool   `json:"valid"` // ok and Validate()==nil
	N       int64  `json:"-"`
	bm      *roaring.Bitmap
}

var entryNames = []string{"ReadFrom", "ReadFromChunked", "FromBuffer", "FromUnsafeBytes", "UnmarshalBinary", "FromBase64", "FrozenView"}

func decodeOnce(entry int, data []byte, chunking int) decodeOutcome {
	res := make(chan decodeOutcome, 1)
	go func() {
		debug.SetPanicOnFault(true)
		var out decodeOutcome
		defer func() {
			if r := recover(); r != nil {
				out = decodeOutcome{Outcome: "panic", Msg: fmt.Sprintf("%v", r)}
				if len(out.Msg) > 160 {
					out.Msg = out.Msg[:160]
				}
			}
			res <- out
		}()
		rb := roaring.New()
		var err error
		var n int64
		switch entry {
		case 0:
			n, err = rb.ReadFrom(bytes.NewReader(data))
		case 1:
			n, err = rb.ReadFrom(&chunkReader{b: data, sizes: chunkings[chunking%len(chunkings)]})
		case 2:
			n, err = rb.FromBuffer(data)
		case 3:
			n, err = rb.FromUnsafeBytes(data)
		case 4:
			err = rb.UnmarshalBinary(data)
		case 5:
			n, err = rb.FromBase64(base64.StdEncoding.EncodeToString(data))
		case 6:
			err = rb.FrozenView(data)
		}
		if err != nil {
			out = decodeOutcome{Outcome: "err", Msg: err.Error()}
			if len(out.Msg) > 160 {
				out.Msg = out.Msg[:160]
			}
			return
		}
		out = decodeOutcome{Outcome: "ok", N: n, bm: rb}
		out.Valid = rb.Validate() == nil
	}()
	select {
	case o := <-res:
		return o
	case <-time.After(20 * time.Second):
		return decodeOutcome{Outcome: "hang", Msg: "no return within 20s"}
	}
}

// ---------------------------------------------------------------- corruption taxonomy

var corruptKinds = []string{"trunc", "cookie", "count", "keyswap", "keydup", "card", "runflag", "offset", "array-unsorted", "array-dup",
	"run-overlap", "run-adjacent", "run-wrap", "run-zero", "bitmap-bits", "trailing", "byteflip", "random"}
var frozenKinds = []string{"f-trunc", "f-typecode", "f-count", "f-header-count", "f-cookie", "f-byteflip", "f-extra", "f-gen", "f-gen", "f-gen"}

// genFrozen GENERATES a frozen buffer from random tables instead of damaging a valid one: 1..3 chunks, extreme
// counts, and an arena whose length is the exact one, the exact one minus one chunk's payload, empty, or
// one byte too long - the combinations a decoder's two size computations must agree on.
func genFrozen(r *rand.Rand) []byte {
	n := 1 + r.Intn(3)
	types := make([]byte, n)
	counts := make([]uint16, n)
	sizes := make([]int, n)
	total := 0
	for i := range types {
		types[i] = byte(1 + r.Intn(3))
		counts[i] = pick(r, []uint16{0, 1, 2, 4095, 4096, 65535, 65535, uint16(r.Intn(65536))})
		switch types[i] {
		case 1:
			sizes[i] = 8192
		case 2:
			sizes[i] = 2 * (int(counts[i]) + 1)
		default:
			sizes[i] = 4 * int(counts[i])
		}
		total += sizes[i]
	}
	arena := total
	switch r.Intn(5) {
	case 0:
		arena = total - sizes[r.Intn(n)]
	case 1:
		arena = 0
	case 2:
		arena = total + 1
	case 3:
		arena = total &^ 1
	}
	out := make([]byte, arena, arena+5*n+4)
	r.Read(out)
	key := uint16(r.Intn(100))
	for i := 0; i < n; i++ {
		out = binary.LittleEndian.AppendUint16(out, key)
		key += uint16(1 + r.Intn(3))
	}
	for i := 0; i < n; i++ {
		out = binary.LittleEndian.AppendUint16(out, counts[i])
	}
	out = append(out, types...)
	out = binary.LittleEndian.AppendUint32(out, 13766|uint32(n)<<15)
	return out
}

// corruptPortable applies kind to a valid stream (located with the independent parser). ok=false when the
// kind does not apply to this stream (e.g. no run chunk).
func corruptPortable(b []byte, kind string, r *rand.Rand) (out []byte, prefix bool, ok bool) {
	f, _ := parsePortable(b)
	if !f.OK {
		return nil, false, false
	}
	out = append([]byte(nil), b...)
	descAt := func(i int) int { // position of descriptive-header entry i
		if f.Cookie == cookieNoRun {
			return 8 + 4*i
		}
		return 4 + (f.N+7)/8 + 4*i
	}
	pickChunk := func(t int) int {
		var c []int
		for i, ch := range f.Ch {
			if t < 0 || ch.T == t {
				c = append(c, i)
			}
		}
		if len(c) == 0 {
			return -1
		}
		return c[r.Intn(len(c))]
	}
	switch kind {
	case "trunc":
		if len(b) == 0 {
			return nil, false, false
		}
		hdr := len(b)
		if f.N > 0 {
			hdr = f.Ch[0].Pos
		}
		cuts := []int{0, 1, 3, 4, 7, hdr - 1, hdr, hdr + 1, len(b) - 1, len(b) / 2, r.Intn(len(b))}
		c := cuts[r.Intn(len(cuts))]
		if c < 0 {
			c = 0
		}
		if c >= len(b) {
			c = len(b) - 1
		}
		return out[:c], true, true
	case "cookie":
		v := pick(r, []uint32{0, 12345, 12348, 0xFFFFFFFF, cookieRun, cookieNoRun, uint32(r.Uint32())})
		binary.LittleEndian.PutUint32(out, v)
	case "count":
		if f.Cookie == cookieNoRun {
			v := pick(r, []uint32{0, uint32(f.N + 1), uint32(f.N - 1), 65536, 65537, 0xFFFFFFFF, 1 << 31})
			binary.LittleEndian.PutUint32(out[4:], v)
		} else {
			v := pick(r, []uint16{0, uint16(f.N), uint16(f.N - 2), 65535, 32768})
			binary.LittleEndian.PutUint16(out[2:], v)
		}
	case "keyswap", "keydup":
		if f.N < 2 {
			return nil, false, false
		}
		i := r.Intn(f.N - 1)
		a, c := descAt(i), descAt(i+1)
		if kind == "keyswap" {
			out[a], out[a+1], out[c], out[c+1] = out[c], out[c+1], out[a], out[a+1]
		} else {
			out[c], out[c+1] = out[a], out[a+1]
		}
	case "card":
		i := pickChunk(-1)
		if i < 0 {
			return nil, false, false
		}
		v := pick(r, []uint16{0, 65535, uint16(f.Ch[i].Card), uint16(f.Ch[i].Card - 2), 4095, 4096})
		binary.LittleEndian.PutUint16(out[descAt(i)+2:], v)
	case "runflag":
		if f.Cookie != cookieRun || f.N == 0 {
			return nil, false, false
		}
		i := r.Intn(f.N)
		out[4+i/8] ^= 1 << (uint(i) % 8)
	case "offset":
		if !f.HasOff || f.N == 0 {
			return nil, false, false
		}
		i := r.Intn(f.N)
		p := descAt(f.N) + 4*i
		binary.LittleEndian.PutUint32(out[p:], pick(r, []uint32{0, 0xFFFFFFFF, uint32(len(b)), uint32(r.Intn(len(b) + 1))}))
	case "array-unsorted", "array-dup":
		i := pickChunk(0)
		if i < 0 || f.Ch[i].Card < 2 {
			return nil, false, false
		}
		j := r.Intn(f.Ch[i].Card - 1)
		p := f.Ch[i].Pos + 2*j
		if kind == "array-unsorted" {
			out[p], out[p+1], out[p+2], out[p+3] = out[p+2], out[p+3], out[p], out[p+1]
		} else {
			out[p+2], out[p+3] = out[p], out[p+1]
		}
	case "run-overlap", "run-adjacent", "run-wrap", "run-zero":
		i := pickChunk(2)
		if i < 0 {
			return nil, false, false
		}
		p := f.Ch[i].Pos
		nr := f.Ch[i].NR
		switch kind {
		case "run-zero":
			binary.LittleEndian.PutUint16(out[p:], 0)
		case "run-wrap":
			j := r.Intn(nr)
			binary.LittleEndian.PutUint16(out[p+2+4*j+2:], 65535)
		default:
			if nr < 2 {
				return nil, false, false
			}
			j := r.Intn(nr - 1)
			st2 := binary.LittleEndian.Uint16(out[p+2+4*(j+1):])
			st1 := binary.LittleEndian.Uint16(out[p+2+4*j:])
			ln := st2 - st1 // run j now reaches st2 (overlap) or st2-1 (adjacent)
			if kind == "run-adjacent" {
				ln--
			}
			binary.LittleEndian.PutUint16(out[p+2+4*j+2:], ln)
		}
	case "bitmap-bits":
		i := pickChunk(1)
		if i < 0 {
			return nil, false, false
		}
		for k, n := 0, 1+r.Intn(5); k < n; k++ {
			out[f.Ch[i].Pos+r.Intn(8192)] ^= byte(1 << uint(r.Intn(8)))
		}
	case "trailing":
		for k, n := 0, 1+r.Intn(40); k < n; k++ {
			out = append(out, byte(r.Intn(256)))
		}
	case "byteflip":
		if len(out) == 0 {
			return nil, false, false
		}
		for k, n := 0, 1+r.Intn(4); k < n; k++ {
			lim := len(out)
			if r.Intn(2) == 0 && f.N > 0 { // bias towards the headers
				lim = f.Ch[0].Pos
			}
			out[r.Intn(lim)] ^= byte(1 << uint(r.Intn(8)))
		}
	case "random":
		out = make([]byte, r.Intn(64))
		r.Read(out)
		if len(out) >= 4 && r.Intn(2) == 0 {
			binary.LittleEndian.PutUint32(out, pick(r, []uint32{cookieNoRun, cookieRun | uint32(r.Intn(4))<<16}))
		}
	default:
		return nil, false, false
	}
	return out, false, true
}

func corruptFrozen(b []byte, kind string, r *rand.Rand) ([]byte, bool) {
	f, _ := parseFrozen(b)
	if !f.OK {
		return nil, false
	}
	out := append([]byte(nil), b...)
	n := f.N
	switch kind {
	case "f-gen":
		return genFrozen(r), true
	case "f-trunc":
		if len(out) == 0 {
			return nil, false
		}
		return out[:r.Intn(len(out))], true
	case "f-typecode":
		if n == 0 {
			return nil, false
		}
		out[len(out)-4-n+r.Intn(n)] = pick(r, []byte{0, 4, 255, 1, 2, 3})
	case "f-count":
		if n == 0 {
			return nil, false
		}
		p := len(out) - 4 - 3*n + 2*r.Intn(n)
		binary.LittleEndian.PutUint16(out[p:], pick(r, []uint16{0, 65535, 65535, 65534, 4095, 4096, uint16(r.Intn(65536))}))
	case "f-header-count":
		v := pick(r, []uint32{65537, 1 << 16, 0x1FFFF, uint32(n + 1), 0})
		binary.LittleEndian.PutUint32(out[len(out)-4:], 13766|v<<15)
	case "f-cookie":
		binary.LittleEndian.PutUint32(out[len(out)-4:], uint32(r.Intn(1<<15))|uint32(n)<<15)
	case "f-byteflip":
		if len(out) == 0 {
			return nil, false
		}
		lim := 5*n + 4
		if lim > len(out) {
			lim = len(out)
		}
		out[len(out)-1-r.Intn(lim)] ^= byte(1 << uint(r.Intn(8)))
	case "f-extra":
		out = append(make([]byte, 1+r.Intn(9)), out...)
	default:
		return nil, false
	}
	return out, true
}

// ---------------------------------------------------------------- the driver

func cmdFuzzDec(args []string) {
	fs := flag.NewFlagSet("fuzzdec", flag.ExitOnError)
	seed := fs.Int64("seed", 1, "seed")
	traces := fs.Int("traces", 50, "number of inputs (one trace each)")
	out := fs.String("out", "", "ndjson output")
	cover := fs.String("cover", "", "coverage json")
	first := fs.Int("first", 1, "first trace id")
	only := fs.Int("only", 0, "only this trace id")
	corpus := fs.String("corpus", "/repo/testdata", "directory with golden / crash-prone inputs")
	fs.String("profile", "", "ignored")
	fs.Int("steps", 0, "ignored")
	fs.Parse(args)
	f, err := os.Create(*out)
	if err != nil {
		panic(err)
	}
	w := bufio.NewWriterSize(f, 1<<20)
	cv := coverOut{Ops: map[string]int{}, Kinds: map[string]int{}}
	var golden [][]byte
	if ents, err := os.ReadDir(*corpus); err == nil {
		for _, en := range ents {
			if b, err := os.ReadFile(*corpus + "/" + en.Name()); err == nil && len(b) > 0 && len(b) < 1<<22 && !en.IsDir() {
				golden = append(golden, b)
			}
		}
	}
	for t := 0; t < *traces; t++ {
		id := *first + t
		if *only != 0 && id != *only {
			continue
		}
		markInflight(id, 0, "Decode")
		r := rand.New(rand.NewSource(*seed*7368787 + int64(id)))
		// a valid base bitmap of a random shape
		keys := randKeys(r, 1+r.Intn(6))
		base := randGen32(r, keys)
		if base.empty() && r.Intn(3) != 0 {
			base = chunkShape(r, keys[0])
		}
		src := roaring.New()
		for _, sp := range base {
			src.AddRange(sp.lo, sp.hi+1)
		}
		if r.Intn(2) == 0 {
			src.RunOptimize()
		}
		frozen := r.Intn(3) == 0
		var data []byte
		kind := ""
		prefix := false
		if frozen {
			fb, _ := src.Freeze()
			kind = pick(r, frozenKinds)
			var ok bool
			data, ok = corruptFrozen(fb, kind, r)
			if !ok {
				data, kind = fb, "f-none"
			}
		} else if len(golden) > 0 && r.Intn(12) == 0 {
			data, kind = pick(r, golden), "corpus"
			if r.Intn(2) == 0 {
				if c, _, ok := corruptPortable(data, "byteflip", r); ok {
					data, kind = c, "corpus-byteflip"
				}
			}
		} else {
			pb, _ := src.ToBytes()
			kind = pick(r, corruptKinds)
			var ok bool
			data, prefix, ok = corruptPortable(pb, kind, r)
			if !ok {
				data, kind, prefix = pb, "none", false
			}
		}
		cv.Kinds[kind]++
		// decode through every applicable entry point; adopt the first valid result
		type attempt struct {
			entry  int
			o      decodeOutcome
			prefix bool // this attempt was given a proper prefix of a valid stream (all-prefixes sweep)
		}
		var atts []attempt
		var adopted *roaring.Bitmap
		adoptedEntry := -1
		entries := []int{0, 1, 2, 3, 4, 5}
		if frozen {
			entries = []int{6}
		} else if r.Intn(6) == 0 {
			entries = append(entries, 6) // portable bytes given to FrozenView
		}
		for _, en := range entries {
			in := data
			if en == 2 || en == 3 || en == 6 {
				atEnd := r.Intn(3) != 0
				if en == 6 && len(data)%32 != 0 {
					atEnd = false // FrozenView documents 32-byte alignment of the start
				}
				in = guarded(data, atEnd, 32)
			}
			o := decodeOnce(en, in, r.Intn(8))
			atts = append(atts, attempt{en, o, false})
			if o.Outcome == "ok" && o.Valid && adopted == nil && r.Intn(2) == 0 {
				adopted, adoptedEntry = o.bm, en
			}
		}
		// an UNDAMAGED stream decoded into a receiver that already holds something must give the same bitmap as into a fresh one
		if pb, _ := src.ToBytes(); !frozen && r.Intn(3) == 0 {
			for _, en := range []int{0, 2, 3, 4} {
				used := roaring.BitmapOf(1, 2, 3, 70000, 1<<31)
				used.AddRange(5<<16, 5<<16+5000)
				var derr error
				in := append([]byte(nil), pb...)
				switch en {
				case 0:
					_, derr = used.ReadFrom(bytes.NewReader(in))
				case 2:
					_, derr = used.FromBuffer(in)
				case 3:
					_, derr = used.FromUnsafeBytes(in)
				default:
					derr = used.UnmarshalBinary(in)
				}
				if derr != nil {
					atts = append(atts, attempt{en, decodeOutcome{Outcome: "valid-stream-rejected-by-used-receiver", Msg: derr.Error()}, false})
				} else if !used.Equals(src) {
					atts = append(atts, attempt{en, decodeOutcome{Outcome: "used-receiver-keeps-old-content", Msg: fmt.Sprintf("cardinality %d, want %d", used.GetCardinality(), src.GetCardinality())}, false})
				}
			}
			cv.Kinds["used-receiver"]++
		}
		// every truncation position of a small valid stream, through every entry point: only anomalies are logged
		// (a panic, a hang, or a proper prefix that is accepted)
		if pb, _ := src.ToBytes(); !frozen && len(pb) <= 1500 && r.Intn(4) == 0 {
			for k := 0; k < len(pb); k++ {
				for _, en := range []int{0, 1, 2, 3, 4, 5} {
					in := append([]byte(nil), pb[:k]...)
					var mapping []byte
					if (en == 2 || en == 3) && k%2 == 0 {
						in, mapping = guardedMap(pb[:k], true, 32)
					} else if en == 2 || en == 3 {
						full := append([]byte(nil), pb...)
						in = full[:k] // a window into a larger buffer: what lies beyond len() is not input
					}
					o := decodeOnce(en, in, k%8)
					if o.Outcome == "err" && mapping != nil {
						syscall.Munmap(mapping) // rejected: nothing refers to the input
					}
					if o.Outcome != "err" {
						o.Msg = fmt.Sprintf("prefix of %d/%d bytes: %s", k, len(pb), o.Msg)
						atts = append(atts, attempt{en, o, true})
					}
				}
			}
			cv.Kinds["all-prefixes"]++
		}
		// universe: from the adopted set (and a partner) or trivial
		var u *Universe
		var partner iset
		var adoptedSet iset
		if adopted != nil {
			adoptedSet = view32(adopted, nil).Set
			pk := keys
			partner = randGen32(r, pk)
			var cuts []uint64
			for _, k := range pk {
				cuts = append(cuts, k<<16, (k+1)<<16)
			}
			for i := 0; i < 4 && !adoptedSet.empty(); i++ {
				sp := adoptedSet[r.Intn(len(adoptedSet))]
				cuts = append(cuts, sp.lo, sp.hi+1)
			}
			u, err = vennUniverse(32, cuts, []iset{adoptedSet, partner})
			if err != nil || len(u.Atoms) > 60 {
				u = nil
			}
		}
		if u == nil {
			u, _ = vennUniverse(32, nil, nil)
			adopted = nil
		}
		u.computeShifts(nil)
		u.Name = "fuzzdec/" + kind
		e := newExec(u, w, id, r.Int63())
		e.noRep = false
		e.begin()
		for _, a := range atts {
			ev := e.rawEvent(Call{Op: "Decode", V: a.entry, Rcp: kind})
			ev.Ret = map[string]any{"outcome": a.o.Outcome, "msg": a.o.Msg, "valid": a.o.Valid, "prefix": (prefix || a.prefix) && a.entry != 6, "entry": entryNames[a.entry]}
			e.emit(ev)
			e.events++
			cv.Ops["Decode"]++
		}
		// MustReadFrom on the same bytes (only meaningful for the stream entry point)
		if !frozen {
			ev := e.rawEvent(Call{Op: "MustRead", Rcp: kind})
			ev.Ret = mustReadObs(data)
			e.emit(ev)
			e.events++
			cv.Ops["MustRead"]++
		}
		if adopted != nil {
			atoms, bad := u.project(adoptedSet)
			if bad == "" {
				e.slots[1] = adopted
				e.taint[1] = adoptedEntry == 2 || adoptedEntry == 3 || adoptedEntry == 6
				e.run(Call{Op: "Adopt", Dst: 1, As: atoms, V: adoptedEntry})
				pa, _ := u.project(partner)
				e.run(Call{Op: "Build", Dst: 2, As: pa, Rcp: pick(r, recipes)})
				battery := []Call{{Op: "Card", X: 1}, {Op: "IsEmpty", X: 1}, {Op: "Min", X: 1}, {Op: "Max", X: 1}, {Op: "ToArray", X: 1, V: r.Intn(2)},
					{Op: "ItNew", A: 1, X: 1, Rcp: "fwd"}, {Op: "ItTake", A: 1}, {Op: "ItTake", A: 1}, {Op: "ItTake", A: 1},
					{Op: "ItNew", A: 2, X: 1, Rcp: "rev"}, {Op: "ItTake", A: 2}, {Op: "ItNew", A: 3, X: 1, Rcp: "many", J: r.Intn(10)}, {Op: "ItTake", A: 3}, {Op: "ItTake", A: 3},
					{Op: "Ranges", X: 1}, {Op: "IterCb", X: 1, Rcp: "Iterate", C0: u.ncell()}, {Op: "IterCb", X: 1, Rcp: "Backward", C0: 1},
					{Op: "AndS", Dst: 3, X: 1, Y: 2}, {Op: "OrS", Dst: 4, X: 2, Y: 1}, {Op: "XorS", Dst: 5, X: 1, Y: 2}, {Op: "AndNotS", Dst: 6, X: 2, Y: 1},
					{Op: "AndCard", X: 1, Y: 2}, {Op: "OrCard", X: 2, Y: 1}, {Op: "Intersects", X: 1, Y: 2}, {Op: "Equals", X: 1, Y: 1},
					{Op: "Ser", X: 1, V: r.Intn(4)}, {Op: "Load", Dst: 3, X: 1, V: r.Intn(6), J: r.Intn(8)}, {Op: "Equals", X: 1, Y: 3},
					{Op: "Clone", Dst: 4, X: 1}, {Op: "Or", X: 4, Y: 2}, {Op: "And", X: 1, Y: 2}, {Op: "Xor", X: 2, Y: 3}, {Op: "AndNot", X: 3, Y: 2},
					{Op: "RunOptimize", X: 4}, {Op: "Card", X: 4}}
				for c := 1; c <= u.ncell(); c++ {
					if r.Intn(2) == 0 {
						battery = append(battery, Call{Op: "Rank", X: 1, C0: c, Side: r.Intn(2)}, Call{Op: pick(r, []string{"NextValue", "PreviousValue", "NextAbsentValue", "PreviousAbsentValue"}), X: 1, C0: c, Side: r.Intn(2)})
					}
				}
				// queries first on the untouched adopted bitmap, mutations last
				r.Shuffle(17, func(i, j int) { battery[i], battery[j] = battery[j], battery[i] })
				for _, c := range battery {
					if c.Op == "Select" {
						continue
					}
					e.run(c)
				}
				for i := 0; i < 3; i++ {
					cands := selectCands(e, 1, r)
					k := pick(r, cands)
					e.run(Call{Op: "Select", X: 1, Num: &k})
				}
			}
		}
		cv.Traces++
		cv.Events += e.events
		for k, v := range e.cover {
			cv.Ops[k] += v
		}
	}
	w.Flush()
	f.Close()
	writeCover(*cover, cv)
}

// rawEvent builds an event that does not go through the executor (no bitmap call of the slot machinery).
func (e *Exec) rawEvent(c Call) *Event {
	e.idx++
	markInflight(e.tr, e.idx, c.Op)
	return &Event{Call: c, Tr: e.tr, I: e.idx, Post: []SlotAtoms{}, Bad: []SlotMsg{}, Rep: []SlotRep{}, Bufch: []int{}, Aux: true, Argok: true, Alias: [][2]int{}, Probe: []ProbeRec{}}
}

func mustReadObs(data []byte) map[string]any {
	ref := roaring.New()
	rn, rerr := ref.ReadFrom(bytes.NewReader(data))
	validNil := rerr == nil && ref.Validate() == nil
	var n int64
	var err error
	panicked := false
	func() {
		defer func() {
			if r := recover(); r != nil {
				panicked = true
			}
		}()
		m := roaring.New()
		n, err = m.MustReadFrom(bytes.NewReader(data))
	}()
	return map[string]any{"panicked": panicked, "sameN": n == rn, "sameErr": (err == nil) == (rerr == nil), "readOK": rerr == nil, "validNil": validNil}
}
