package main

// Interval sets over uint64 and limb numbers. This is the only "set" type the harness owns; it is
// used to *count* (how many integers of a real bitmap fall into each atom), never to compute the
// result of a library operation -- the meaning of every operation lives in the TLA+ modules.

import (
	"math/bits"
	"sort"
)

type span struct{ lo, hi uint64 } // inclusive

type iset []span // sorted, disjoint, non-adjacent

// Num is a non-negative integer < 2^80 as 5 base-65536 digits, little endian (TLC has 32-bit ints).
type Num [5]int

func numFromU64(v uint64) Num {
	return Num{int(v & 0xFFFF), int((v >> 16) & 0xFFFF), int((v >> 32) & 0xFFFF), int((v >> 48) & 0xFFFF), 0}
}

func numFrom128(hi, lo uint64) Num {
	n := numFromU64(lo)
	n[4] = int(hi & 0xFFFF)
	return n
}

func (a Num) add(b Num) Num {
	var r Num
	c := 0
	for i := 0; i < 5; i++ {
		s := a[i] + b[i] + c
		r[i] = s & 0xFFFF
		c = s >> 16
	}
	return r
}

func (a Num) isZero() bool { return a == Num{} }

func (a Num) cmp(b Num) int {
	for i := 4; i >= 0; i-- {
		if a[i] != b[i] {
			if a[i] < b[i] {
				return -1
			}
			return 1
		}
	}
	return 0
}

func (a Num) u64() uint64 {
	return uint64(a[0]) | uint64(a[1])<<16 | uint64(a[2])<<32 | uint64(a[3])<<48
}

// count128 returns the cardinality of s as (hi, lo).
func (s iset) count128() (hi, lo uint64) {
	for _, sp := range s {
		d := sp.hi - sp.lo // size-1
		var c uint64
		lo, c = bits.Add64(lo, d, 0)
		hi += c
		lo, c = bits.Add64(lo, 1, 0)
		hi += c
	}
	return
}

func (s iset) count() Num { h, l := s.count128(); return numFrom128(h, l) }

func (s iset) empty() bool { return len(s) == 0 }
func (s iset) min() uint64 { return s[0].lo }
func (s iset) max() uint64 { return s[len(s)-1].hi }

// normalize sorts and merges arbitrary spans.
func normalize(sp []span) iset {
	if len(sp) == 0 {
		return nil
	}
	sort.Slice(sp, func(i, j int) bool { return sp[i].lo < sp[j].lo })
	out := make(iset, 0, len(sp))
	cur := sp[0]
	for _, s := range sp[1:] {
		if cur.hi == ^uint64(0) || s.lo <= cur.hi+1 {
			if s.hi > cur.hi {
				cur.hi = s.hi
			}
			continue
		}
		out = append(out, cur)
		cur = s
	}
	return append(out, cur)
}

func isetOfValues(vs []uint64) iset {
	sp := make([]span, len(vs))
	for i, v := range vs {
		sp[i] = span{v, v}
	}
	return normalize(sp)
}

func (s iset) contains(v uint64) bool {
	i := sort.Search(len(s), func(i int) bool { return s[i].hi >= v })
	return i < len(s) && s[i].lo <= v
}

func (a iset) union(b iset) iset {
	sp := make([]span, 0, len(a)+len(b))
	sp = append(sp, a...)
	sp = append(sp, b...)
	return normalize(sp)
}

func (a iset) intersect(b iset) iset {
	var out iset
	i, j := 0, 0
	for i < len(a) && j < len(b) {
		lo := a[i].lo
		if b[j].lo > lo {
			lo = b[j].lo
		}
		hi := a[i].hi
		if b[j].hi < hi {
			hi = b[j].hi
		}
		if lo <= hi {
			out = append(out, span{lo, hi})
		}
		if a[i].hi < b[j].hi {
			i++
		} else {
			j++
		}
	}
	return out
}

// complementIn returns [lo,hi] \ s.
func (s iset) complementIn(lo, hi uint64) iset {
	var out iset
	cur := lo
	done := false
	for _, sp := range s {
		if sp.hi < lo {
			continue
		}
		if sp.lo > hi {
			break
		}
		if sp.lo > cur {
			out = append(out, span{cur, sp.lo - 1})
		}
		if sp.hi >= hi {
			done = true
			break
		}
		cur = sp.hi + 1
	}
	if !done && cur <= hi {
		out = append(out, span{cur, hi})
	}
	return out
}

func (a iset) minus(b iset) iset {
	if len(a) == 0 {
		return nil
	}
	return a.intersect(b.complementIn(0, ^uint64(0)))
}

func (a iset) equal(b iset) bool {
	if len(a) != len(b) {
		return false
	}
	for i := range a {
		if a[i] != b[i] {
			return false
		}
	}
	return true
}

// shift returns {v+d : v in s, 0 <= v+d <= top}; d is signed, |d| <= 2^63-1.
func (s iset) shift(d int64, top uint64) iset {
	var out iset
	for _, sp := range s {
		if d >= 0 {
			ud := uint64(d)
			if ud > top || sp.lo > top-ud { // lo+d > top
				continue
			}
			lo := sp.lo + ud
			var hi uint64
			if sp.hi > top-ud {
				hi = top
			} else {
				hi = sp.hi + ud
			}
			out = append(out, span{lo, hi})
		} else {
			ud := uint64(-d)
			if sp.hi < ud {
				continue
			}
			hi := sp.hi - ud
			var lo uint64
			if sp.lo > ud {
				lo = sp.lo - ud
			}
			if hi > top {
				hi = top
			}
			if lo > top {
				continue
			}
			out = append(out, span{lo, hi})
		}
	}
	return out
}

// values expands s (caller guarantees it is small).
func (s iset) values() []uint64 {
	var out []uint64
	for _, sp := range s {
		for v := sp.lo; ; v++ {
			out = append(out, v)
			if v == sp.hi {
				break
			}
		}
	}
	return out
}

func (s iset) smallerThan(limit uint64) bool {
	h, l := s.count128()
	return h == 0 && l <= limit
}

// kth: the k-th smallest element (0-based) of the set, if there is one. Used for the exact Select oracle: the set is the
// harness' own projection of the raw representation (view32 / view64), not anything Select computes.
func (s iset) kth(k uint64) (uint64, bool) {
	for _, sp := range s {
		n := sp.hi - sp.lo // size - 1
		if k <= n {
			return sp.lo + k, true
		}
		k -= n
		if k == 0 {
			return 0, false
		}
		k--
	}
	return 0, false
}
